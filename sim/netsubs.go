package sim

import (
	"context"
	"fmt"
	"time"

	datatransfer "github.com/filecoin-project/go-data-transfer/v2"
	"github.com/ipld/go-ipld-prime/node/basicnode"

	"verif/simrt"
)

// C17, manager level: several global subscribers per node (some subscribe late, some unsubscribe at a tape-chosen
// point), one per-transfer subscriber per opened channel, and transfers in BOTH directions - the two managers draw
// their transfer ids from the same simulated clock, so a channel A opened and a channel B opened carry the same
// transfer id and differ only in the initiator.

type subLog struct {
	name  string
	node  *Node
	life  int
	x     *xfer                    // per-transfer subscriber of this (forward) transfer
	chid  *datatransfer.ChannelID  // per-transfer subscriber of a reverse channel
	recs  []NodeEv
	// scheduling steps: SubscribeToEvents returned; unsubscribe called / returned (-1: never)
	subRet, unsubCall, unsubRet int
	afterUnsub                  string // content of the voucher (result) this subscriber's task sent right after its unsubscribe returned
}

func (nr *netRun) mkSub(l *subLog) datatransfer.Subscriber {
	return func(ev datatransfer.Event, st datatransfer.ChannelState) {
		snap := TakeSnap(nr.r, "subscriber:"+l.name, st)
		l.recs = append(l.recs, NodeEv{Step: nr.r.S.Steps, Code: ev.Code, Snap: snap, Life: l.node.life})
	}
}

func (nr *netRun) perTransferSub(x *xfer) datatransfer.TransferOption {
	l := &subLog{name: fmt.Sprintf("per-transfer#%d", x.idx), node: nr.A, life: nr.A.life, x: x, subRet: -1, unsubCall: -1, unsubRet: -1}
	nr.subs = append(nr.subs, l)
	return datatransfer.WithSubscriber(nr.mkSub(l))
}

// installSubs adds the extra global subscribers and schedules the reverse transfers.
func (nr *netRun) installSubs() {
	r := nr.r
	for _, n := range []*Node{nr.A, nr.B} {
		n := n
		k := 1 + r.Intn(3)
		for i := 0; i < k; i++ {
			l := &subLog{name: fmt.Sprintf("global-%s-%d", n.Name, i), node: n, life: n.life, subRet: -1, unsubCall: -1, unsubRet: -1}
			nr.subs = append(nr.subs, l)
			d0 := 0
			if r.Intn(2) == 0 {
				d0 = r.Intn(400)
			}
			doUnsub := r.Intn(2) == 0
			d1 := r.Intn(1500)
			r.Op(n.Name, "app:subscriber", func() {
				yieldN(d0)
				unsub := n.Mgr.SubscribeToEvents(nr.mkSub(l))
				l.subRet = r.S.Steps
				if !doUnsub {
					return
				}
				yieldN(d1)
				l.unsubCall = r.S.Steps
				unsub()
				l.unsubRet = r.S.Steps
				r.Probe("unsubscribed-mid-run")
				// an event that is certainly applied after the unsubscribe returned: this very task now sends a voucher
				// (voucher result on the responder) with a content of its own on the first live channel
				for _, x := range nr.xs {
					if !x.opened || x.raw || x.openErr != nil {
						continue
					}
					if s, ok := n.State(x.chid); !ok || isTerminal(s.Status) || isCleanup(s.Status) {
						continue
					}
					tv := datatransfer.TypedVoucher{Voucher: basicnode.NewString("after-unsubscribe-of-" + l.name), Type: "T0"}
					var err error
					if n == nr.A {
						err = n.Mgr.SendVoucher(context.Background(), x.chid, tv)
					} else {
						tv.Type = "R0"
						err = n.Mgr.SendVoucherResult(context.Background(), x.chid, tv)
					}
					if err == nil {
						l.afterUnsub = encTV(tv)
						r.Probe("event-applied-right-after-unsubscribe")
					}
					break
				}
			})
		}
	}
	// reverse transfers: B pulls from A what A's default store holds (the DAG of a forward push without per-channel store)
	nrev := r.Intn(3)
	wait := r.Intn(300)
	r.Op("B", "app:reverse-opens", func() {
		yieldN(wait)
		for i := 0; i < nrev; i++ {
			var src *xfer
			for _, x := range nr.xs {
				if !x.pull && !x.perChA && x.rawKind == "" {
					src = x
				}
			}
			if src == nil {
				return
			}
			l := &subLog{name: fmt.Sprintf("per-transfer-reverse-%d", i), node: nr.B, life: nr.B.life, subRet: -1, unsubCall: -1, unsubRet: -1}
			v := datatransfer.TypedVoucher{Voucher: basicnode.NewString(fmt.Sprintf("rev-%d", i)), Type: "T0"}
			nr.extraChannelsAllowed++
			chid, err := nr.B.Mgr.OpenPullDataChannel(context.Background(), nr.A.ID, v, src.root, src.sel, datatransfer.WithSubscriber(nr.mkSub(l)))
			nr.w.Logf("APP B reverse pull #%d -> chid=%v err=%v", i, chid, err)
			if err != nil {
				continue
			}
			c := chid
			l.chid = &c
			nr.subs = append(nr.subs, l)
			nr.reverse = append(nr.reverse, chid)
			r.Probe("reverse-channel-opened")
			for _, x := range nr.xs {
				if x.opened && x.chid.ID == chid.ID {
					r.Probe("same-transfer-id-in-both-directions")
				}
			}
		}
	})
}

type evKey struct {
	chid datatransfer.ChannelID
	code datatransfer.EventCode
	key  string
}

func keysOf(evs []NodeEv) []evKey {
	out := make([]evKey, len(evs))
	for i, e := range evs {
		out[i] = evKey{e.Snap.ChID, e.Code, e.Snap.Key()}
	}
	return out
}

// checkSubscribers is the C17 oracle at manager level. It first pokes every live channel (events that are certainly
// applied after every unsubscribe of the run phase returned), lets things drain, and then compares every
// subscriber's log with the node's reference subscriber (registered first, never removed).
func (nr *netRun) checkSubscribers() {
	r := nr.r
	pokeStart := r.S.Steps
	for _, x := range nr.xs {
		if !x.opened || x.raw {
			continue
		}
		if s, ok := nr.A.State(x.chid); ok && !isTerminal(s.Status) && !isCleanup(s.Status) {
			_ = nr.A.Mgr.SendVoucher(context.Background(), x.chid, datatransfer.TypedVoucher{Voucher: basicnode.NewString(fmt.Sprintf("poke-%d", x.idx)), Type: "T0"})
		}
		if s, ok := nr.B.State(x.chid); ok && !isTerminal(s.Status) && !isCleanup(s.Status) {
			_ = nr.B.Mgr.SendVoucherResult(context.Background(), x.chid, datatransfer.TypedVoucher{Voucher: basicnode.NewString(fmt.Sprintf("poke-r-%d", x.idx)), Type: "R0"})
		}
	}
	for i, chid := range nr.reverse {
		if s, ok := nr.B.State(chid); ok && !isTerminal(s.Status) && !isCleanup(s.Status) {
			_ = nr.B.Mgr.SendVoucher(context.Background(), chid, datatransfer.TypedVoucher{Voucher: basicnode.NewString(fmt.Sprintf("poke-rev-%d", i)), Type: "T0"})
		}
	}
	simrt.Sleep(2 * time.Minute)
	for _, l := range nr.subs {
		n := l.node
		var main []NodeEv
		for _, e := range n.Events {
			if e.Life == l.life {
				main = append(main, e)
			}
		}
		if l.x != nil || l.chid != nil {
			// ---- per-transfer subscriber
			var chid datatransfer.ChannelID
			if l.x != nil {
				if !l.x.opened || l.x.openErr != nil {
					continue
				}
				chid = l.x.chid
			} else {
				chid = *l.chid
			}
			for _, e := range l.recs {
				if e.Snap.ChID != chid {
					r.Failf("C17", "per-transfer-subscriber-foreign-event", datatransfer.Events[e.Code], "the subscriber given to the open of channel %v on node %s was called with %s of channel %v", chid, n.Name, datatransfer.Events[e.Code], e.Snap.ChID)
					break
				}
			}
			var own []NodeEv
			for _, e := range main {
				if e.Snap.ChID == chid {
					own = append(own, e)
				}
			}
			a, b := keysOf(l.recs), keysOf(own)
			if d := firstDiff(a, b); d != "" {
				r.Failf("C17", "per-transfer-subscriber-sequence", classifyDiff(a, b), "the subscriber given to the open of channel %v on node %s saw %d events, the global reference subscriber %d for that channel; %s", chid, n.Name, len(a), len(b), d)
			}
			r.Probe("per-transfer-subscriber-checked")
			continue
		}
		// ---- additional global subscriber
		if l.subRet < 0 {
			continue
		}
		r.Probe("global-subscriber-checked")
		a, m := keysOf(l.recs), keysOf(main)
		// its log is one contiguous block of the reference log ...
		start := -1
		if len(a) > 0 {
			for i := range m {
				if m[i] == a[0] && main[i].Step <= l.recs[0].Step && i+len(a) <= len(m) {
					ok := true
					for j := range a {
						if m[i+j] != a[j] {
							ok = false
							break
						}
					}
					if ok {
						start = i // keep the latest candidate: the reference subscriber is called first for every event
					}
				}
			}
			if start < 0 {
				r.Failf("C17", "global-subscriber-sequence", "not-a-contiguous-block", "subscriber %s saw %d events that are not a contiguous block of the %d events of the node's reference subscriber (missed, duplicated or reordered events)", l.name, len(a), len(m))
				continue
			}
		}
		// ... that covers everything announced between the return of SubscribeToEvents and the unsubscribe call
		for i, e := range main {
			if e.Step > l.subRet && (l.unsubCall < 0 || e.Step < l.unsubCall) {
				if start < 0 || i < start || i >= start+len(a) {
					r.Failf("C17", "global-subscriber-sequence", "missed-event", "subscriber %s (subscribed at step %d, unsubscribe called at %d) was not called for %s of channel %v announced at step %d", l.name, l.subRet, l.unsubCall, datatransfer.Events[e.Code], e.Snap.ChID, e.Step)
					break
				}
			}
		}
		// ... and nothing that was applied after its unsubscribe returned: the voucher its own task sent right afterwards,
		// and the pokes, certainly were
		if l.afterUnsub != "" {
			for _, e := range l.recs {
				if e.Snap.LastV == l.afterUnsub || e.Snap.LastR == l.afterUnsub {
					r.Failf("C17", "called-after-unsubscribe", datatransfer.Events[e.Code]+"|right-after", "subscriber %s was called with %s carrying the voucher that its own task sent after its unsubscribe had returned (step %d; called at step %d)", l.name, datatransfer.Events[e.Code], l.unsubRet, e.Step)
					break
				}
			}
		}
		if l.unsubRet >= 0 {
			for _, e := range l.recs {
				if e.Step >= pokeStart && e.Step > l.unsubRet {
					r.Failf("C17", "called-after-unsubscribe", datatransfer.Events[e.Code], "subscriber %s, whose unsubscribe returned at step %d, was called at step %d with %s of channel %v (applied after step %d)", l.name, l.unsubRet, e.Step, datatransfer.Events[e.Code], e.Snap.ChID, pokeStart)
					break
				}
			}
		}
	}
}

func firstDiff(a, b []evKey) string {
	for i := 0; i < len(a) || i < len(b); i++ {
		switch {
		case i >= len(a):
			return fmt.Sprintf("it missed event %d: %s", i, datatransfer.Events[b[i].code])
		case i >= len(b):
			return fmt.Sprintf("it got an extra event %d: %s of %v", i, datatransfer.Events[a[i].code], a[i].chid)
		case a[i] != b[i]:
			return fmt.Sprintf("event %d differs: it saw %s of %v, the reference %s of %v (or a different snapshot)", i, datatransfer.Events[a[i].code], a[i].chid, datatransfer.Events[b[i].code], b[i].chid)
		}
	}
	return ""
}

func classifyDiff(a, b []evKey) string {
	switch {
	case len(a) < len(b):
		return "missed-events"
	case len(a) > len(b):
		return "extra-events"
	}
	return "different-events"
}
