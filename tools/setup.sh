#!/bin/bash
# setup: build xform and the simulator binary for the current /repo tree (offline), warm the Go build cache.
set -e
cd "$(dirname "$0")/.."
export GOFLAGS=-mod=mod GOPROXY=off GOSUMDB=off GOTOOLCHAIN=local PATH=/opt/veriftools/go1.26.8/bin:$PATH
mkdir -p .build evidence replays
(cd xform && go build -o ../.build/xform .)
python3 tools/check.py --build-only
