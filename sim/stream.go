package sim

// Per-event oracles over one channel's announced event stream within one manager life.
// Used by every engine that records (event, snapshot) pairs.

import (
	datatransfer "github.com/filecoin-project/go-data-transfer/v2"
)

type StreamEv struct {
	Code datatransfer.EventCode
	Snap Snap
	Step int
}

// checkStream: base may be nil when the state before the first event is unknown.
func checkStream(r *RunCtx, who string, selfIsInitiator bool, base *Snap, voucher0 string, evs []StreamEv) {
	var prev Snap
	havePrev := false
	terminalAt := -1
	if base != nil {
		prev, havePrev = *base, true
		if isTerminal(prev.Status) {
			terminalAt = 0
		}
	}
	for i, e := range evs {
		cur := e.Snap
		codeName := datatransfer.Events[e.Code]
		if terminalAt >= 0 {
			r.Failf("C02", "event-after-terminal", codeName, "%s: event %s announced after the channel reached a terminal status", who, codeName)
		}
		if isTerminal(cur.Status) && terminalAt < 0 {
			terminalAt = i
		}
		if voucher0 != "" && cur.Voucher0 != voucher0 {
			r.Failf("C19", "first-voucher-changed", codeName, "%s: Voucher() is %s, opened with %s", who, cur.Voucher0, voucher0)
		}
		if !havePrev {
			prev, havePrev = cur, true
			continue
		}
		d := prev.Diff(cur)
		has := func(x string) bool {
			for _, y := range d {
				if y == x {
					return true
				}
			}
			return false
		}
		// C19: immutable fields never change; logs are append-only
		if has("immutable") {
			r.Failf("C19", "immutable-changed", codeName, "%s: event %s changed identity fields: %v -> %v", who, codeName, prev, cur)
		}
		if !isPrefix(prev.Vouchers, cur.Vouchers) || !isPrefix(prev.Results, cur.Results) {
			r.Failf("C19", "log-not-append-only", codeName, "%s: event %s rewrote the voucher/result log", who, codeName)
		}
		// C03 orthogonality (event classes from the property text)
		if evBookkeeping[e.Code] {
			if has("status") && !(e.Code == datatransfer.ResumeResponder && prev.Status == datatransfer.Finalizing && cur.Status == datatransfer.Completing) {
				r.Failf("C03", "bookkeeping-changed-status", codeName, "%s: bookkeeping event %s moved the status %s -> %s", who, codeName, datatransfer.Statuses[prev.Status], datatransfer.Statuses[cur.Status])
			}
		} else if evLifecycle[e.Code] {
			fin := prev.Status == datatransfer.Finalizing || cur.Status == datatransfer.Finalizing
			for _, f := range d {
				switch f {
				case "counters", "indexes", "limit", "reqfin", "vouchers", "results", "ipaused":
					r.Failf("C03", "lifecycle-changed-bookkeeping", codeName+"|"+f, "%s: lifecycle event %s changed %s: %v -> %v", who, codeName, f, prev, cur)
				case "rpaused":
					if !fin {
						r.Failf("C03", "lifecycle-changed-bookkeeping", codeName+"|"+f, "%s: lifecycle event %s changed the responder pause flag: %v -> %v", who, codeName, prev, cur)
					}
				}
			}
		}
		pauseCheck(r, who, selfIsInitiator, e.Code, prev, cur)
		// C07 monotonic
		if cur.Queued < prev.Queued || cur.Sent < prev.Sent || cur.Received < prev.Received || cur.QIdx < prev.QIdx || cur.SIdx < prev.SIdx || cur.RIdx < prev.RIdx {
			r.Failf("C07", "total-decreased", codeName, "%s: event %s decreased a total or index: %v -> %v", who, codeName, prev, cur)
		}
		prev = cur
	}
}

// pauseCheck (C11): each party's flag follows exactly that party's pause/resume events.
func pauseCheck(r *RunCtx, who string, selfIsInitiator bool, code datatransfer.EventCode, prev, cur Snap) {
	codeName := datatransfer.Events[code]
	fin := prev.Status == datatransfer.Finalizing || cur.Status == datatransfer.Finalizing
	ipCh, rpCh := prev.IPaused != cur.IPaused, prev.RPaused != cur.RPaused
	switch code {
	case datatransfer.PauseInitiator:
		if !cur.IPaused || (rpCh && !fin) {
			r.Failf("C11", "pause-flag", codeName, "%s: after %s InitiatorPaused=%v, responder flag changed=%v", who, codeName, cur.IPaused, rpCh)
		}
	case datatransfer.ResumeInitiator:
		if cur.IPaused || (rpCh && !fin) {
			r.Failf("C11", "pause-flag", codeName, "%s: after %s InitiatorPaused=%v, responder flag changed=%v", who, codeName, cur.IPaused, rpCh)
		}
	case datatransfer.PauseResponder, datatransfer.DataLimitExceeded:
		if !cur.RPaused || ipCh {
			r.Failf("C11", "pause-flag", codeName, "%s: after %s ResponderPaused=%v, initiator flag changed=%v", who, codeName, cur.RPaused, ipCh)
		}
	case datatransfer.ResumeResponder:
		if (cur.RPaused && cur.Status != datatransfer.Finalizing) || ipCh {
			r.Failf("C11", "pause-flag", codeName, "%s: after %s ResponderPaused=%v, initiator flag changed=%v", who, codeName, cur.RPaused, ipCh)
		}
	default:
		if ipCh || (rpCh && !fin) {
			r.Failf("C11", "pause-flag-changed-by-other-event", codeName, "%s: event %s changed pause flags: %v -> %v", who, codeName, prev, cur)
		}
	}
	if cur.Both != (cur.IPaused && cur.RPaused) {
		r.Failf("C11", "both-paused", codeName, "%s: BothPaused=%v with initiator=%v responder=%v", who, cur.Both, cur.IPaused, cur.RPaused)
	}
	wantSelf := cur.RPaused
	if selfIsInitiator {
		wantSelf = cur.IPaused
	}
	if cur.SelfP != wantSelf {
		r.Failf("C11", "self-paused", codeName, "%s: SelfPaused=%v but own role's flag is %v", who, cur.SelfP, wantSelf)
	}
}
