package sim

// Log-analysis oracles of netsim (evaluated after the settle phase).

import (
	"verif/simrt"
	"fmt"
	"strings"
	"time"

	"github.com/ipfs/go-graphsync"
	"github.com/ipld/go-ipld-prime/node/basicnode"

	datatransfer "github.com/filecoin-project/go-data-transfer/v2"
	"github.com/filecoin-project/go-data-transfer/v2/message"
	"github.com/filecoin-project/go-data-transfer/v2/transport/graphsync/extension"
)

var dtExtNames = []graphsync.ExtensionName{extension.ExtensionIncomingRequest1_1, extension.ExtensionOutgoingBlock1_1, extension.ExtensionDataTransfer1_1}

// dtOf extracts the data-transfer message carried by a list of graphsync extensions (nil if none).
func dtOf(exts []graphsync.ExtensionData) (out datatransfer.Message) {
	// observation only: must not consume preemption points (simrt.Quiet)
	simrt.Quiet(func() {
		for _, name := range dtExtNames {
			for _, e := range exts {
				if e.Name == name && e.Data != nil {
					if m, err := message.FromIPLD(e.Data); err == nil {
						out = m
						return
					}
				}
			}
		}
	})
	return out
}

func (nr *netRun) other(n *Node) *Node {
	if n == nr.A {
		return nr.B
	}
	return nr.A
}

// lifeEvents returns the node's events of a channel in one manager life.
func lifeEvents(n *Node, chid datatransfer.ChannelID, life int) []NodeEv {
	var out []NodeEv
	for _, e := range n.Events {
		if e.Snap.ChID == chid && e.Life == life {
			out = append(out, e)
		}
	}
	return out
}

// ---------------------------------------------------------------- C09

func (nr *netRun) checkC09(x *xfer) {
	r := nr.r
	for _, n := range []*Node{nr.A, nr.B} {
		other := nr.other(n)
		for life := 0; life <= n.life; life++ {
			evs := lifeEvents(n, x.chid, life)
			if len(evs) == 0 {
				continue
			}
			prev := evs[0].Snap.Status
			entryStep, entryStatus, entries := -1, datatransfer.Status(0), 0
			lifecycleAfterEntry := false
			if isCleanup(prev) {
				entryStep, entryStatus, entries = evs[0].Step, prev, 1
			}
			for i, e := range evs {
				if i == 0 {
					continue
				}
				s := e.Snap.Status
				if isCleanup(s) && s != prev {
					entryStep, entryStatus = e.Step, s
					entries++
					lifecycleAfterEntry = false
				} else if isCleanup(prev) && evLifecycle[e.Code] && e.Code != datatransfer.CleanupComplete {
					lifecycleAfterEntry = true
				}
				if isTerminal(s) && !isTerminal(prev) {
					nup := 0
					for _, c := range n.Host.cm.Log {
						if !c.Protect && c.Tag == x.chid.String() && c.Peer == other.ID && c.Step <= e.Step && c.Step >= n.LifeStart[life] {
							nup++
						}
					}
					if entryStep < 0 || nup == 0 {
						r.Failf("C09", "terminal-without-cleanup", n.Name+"|"+datatransfer.Statuses[s], "node %s channel #%d reached %s without the peer connection being un-protected since it entered a cleanup status (entry step %d, unprotects %d)", n.Name, x.idx, datatransfer.Statuses[s], entryStep, nup)
					}
					if s != terminalOf(entryStatus) && !lifecycleAfterEntry {
						r.Failf("C09", "wrong-terminal", datatransfer.Statuses[entryStatus]+"->"+datatransfer.Statuses[s], "node %s channel #%d entered %s but settled in %s", n.Name, x.idx, datatransfer.Statuses[entryStatus], datatransfer.Statuses[s])
					}
				}
				prev = s
			}
			if life != n.life {
				continue
			}
			last := evs[len(evs)-1]
			if isCleanup(last.Snap.Status) && !lifecycleAfterEntry {
				r.Failf("C09", "cleanup-never-settles", n.Name+"|"+datatransfer.Statuses[last.Snap.Status], "node %s channel #%d is still %s at quiescence after the settle phase (no lifecycle input since it entered)", n.Name, x.idx, datatransfer.Statuses[last.Snap.Status])
			}
			if isTerminal(last.Snap.Status) {
				r.Probe("terminal-reached:" + n.Name)
				// transport resources released: no graphsync request mapped to the channel, no per-channel store registered
				// F3 class: a resource acquired after the channel had already entered its cleanup status (the
				// announcement of the entry is an upper bound of when the ending event was applied)
				cause := ""
				if entryStep >= 0 {
					// when the cleanup ran: the library's (first) CleanupChannel call on the transport in this life (the
					// announcement of the entry into the cleanup status can lag behind it)
					cleanupStep := entryStep
					for _, tc := range n.TpCalls {
						if tc.Kind == "cleanup" && tc.ChID == x.chid && tc.Life == n.life && tc.Step < cleanupStep {
							cleanupStep = tc.Step
						}
					}
					for _, g := range n.AllGSCalls {
						if g.Life != n.life || g.Step <= cleanupStep {
							continue
						}
						if g.Kind == "register" && g.Name == "data-transfer-"+x.chid.String() {
							cause = "|acquired-after-cleanup"
						}
						if g.Kind == "request" {
							if m := dtOf(g.Exts); m != nil && m.TransferID() == x.chid.ID {
								cause = "|acquired-after-cleanup"
							}
						}
					}
					// lower bound of when the ending began: the close call, the arrival of the peer's cancel, or the announcement
					endLB := entryStep
					for _, op := range nr.ops {
						if op.X == x && op.Node == n && (op.Kind == "Close" || op.Kind == "CloseWithError") && op.Call.S0 < endLB {
							endLB = op.Call.S0
						}
					}
					for _, w := range n.Wire {
						if w.Life == n.life && w.Sum.Cancel && w.Sum.TID == x.chid.ID && w.Step < endLB {
							endLB = w.Step
						}
					}
					// an incoming graphsync request of the channel whose hook had not returned before the ending began
					for _, ir := range n.GS.inHistory {
						if m := dtOf(ir.exts); m != nil && m.TransferID() == x.chid.ID && ir.step >= endLB {
							cause = "|acquired-after-cleanup"
						}
					}
				}
				cfp := n.Tp.ChannelsForPeer(other.ID)
				_, s1 := cfp.SendingChannels[x.chid]
				_, s2 := cfp.ReceivingChannels[x.chid]
				if s1 || s2 {
					r.Failf("C09", "transport-not-released", n.Name+"|"+datatransfer.Statuses[last.Snap.Status]+cause, "node %s channel #%d is %s but the transport still maps graphsync requests to it (entry announced at step %d)", n.Name, x.idx, datatransfer.Statuses[last.Snap.Status], entryStep)
				}
				if _, reg := n.GS.persist["data-transfer-"+x.chid.String()]; reg {
					r.Failf("C09", "store-not-released", n.Name+cause, "node %s channel #%d is %s but its per-channel store is still registered with graphsync", n.Name, x.idx, datatransfer.Statuses[last.Snap.Status])
				}
			}
		}
	}
	// whoever hands a cancel message to the network (user close, monitor close-with-error, rejected request) is
	// closing the channel: it must end in a terminal status, even when that send fails
	for _, n := range []*Node{nr.A, nr.B} {
		for _, w := range n.Wire {
			if w.Dir != "send" || !w.Sum.Cancel || w.Sum.TID != x.chid.ID || w.Life != n.life || w.Carrier != "libp2p" {
				continue
			}
			if s, ok := n.State(x.chid); ok && !isTerminal(s.Status) {
				// F2 victims (channel lock held for ever) are reported by the every-call-returns oracle
				r.Failf("C09", "closed-but-not-terminal", n.Name+"|"+datatransfer.Statuses[s.Status]+nr.cancelBeforeOpen(n, x), "node %s handed a cancel message for channel #%d to the network (closing it) but the channel is %s at quiescence after settle", n.Name, x.idx, datatransfer.Statuses[s.Status])
			}
			r.Probe("cancel-message-sent")
			break
		}
	}
	// closing
	for _, op := range nr.ops {
		if op.X != x || (op.Kind != "Close" && op.Kind != "CloseWithError") {
			continue
		}
		c := op.Call
		if !c.Returned {
			continue // generic stuck-call oracle
		}
		n := op.Node
		if d := c.T1.Sub(c.T0); d > 2*time.Minute {
			r.Failf("C09", "close-not-prompt", op.Kind, "%s on node %s took %v of simulated time to return", op.Kind, n.Name, d)
		}
		if c.Err != nil && strings.Contains(c.Err.Error(), "No channel for channel ID") {
			continue
		}
		if op.Life != n.life {
			continue
		}
		r.Probe("close-checked")
		wantReq := n == nr.A
		found := false
		for _, w := range n.Wire {
			if w.Dir == "send" && w.Step >= c.S0 && w.Sum.Cancel && w.Sum.TID == x.chid.ID && w.Sum.Req == wantReq {
				found = true
			}
			if w.Dir == "send" && w.Step >= c.S0 && w.Sum.Cancel && w.Sum.TID == x.chid.ID && w.Sum.Req != wantReq {
				r.Failf("C09", "cancel-message-wrong-kind", n.Name, "node %s closed channel #%d and sent a cancel %s (its role requires the other kind)", n.Name, x.idx, w.Sum.Kind())
			}
		}
		if !found {
			r.Failf("C09", "close-without-cancel-message", n.Name+"|"+op.Kind, "node %s closed channel #%d (returned %v) but never handed a cancel message to the network", n.Name, x.idx, c.Err)
		}
		if s, ok := n.State(x.chid); ok && c.Err == nil {
			want := datatransfer.Cancelled
			if op.Kind == "CloseWithError" {
				want = datatransfer.Failed
			}
			if s.Status != want {
				// legitimate only if the channel had ended otherwise
				endedOtherwise := false
				for _, e := range n.EventsOf(x.chid) {
					st := e.Snap.Status
					if (isTerminal(st) || isCleanup(st)) && terminalOf(st) != want {
						endedOtherwise = true
					}
				}
				if !endedOtherwise {
					r.Failf("C09", "close-wrong-final-status", op.Kind+"|"+datatransfer.Statuses[s.Status]+nr.cancelBeforeOpen(n, x), "node %s: %s of channel #%d returned nil but the channel settled in %s", n.Name, op.Kind, x.idx, datatransfer.Statuses[s.Status])
				}
			}
		}
	}
}

// ---------------------------------------------------------------- C10

func (nr *netRun) checkC10(x *xfer) {
	r := nr.r
	v0 := encNode(x.voucher.Voucher)
	// "a restart of a channel that is cleaning up only finishes the cleanup": nothing is re-issued, nothing is opened
	for _, op := range nr.ops {
		if op.X != x || op.Kind != "Restart" || !op.PreOK || !isCleanup(op.Pre.Status) || !op.Call.Returned || op.Life != op.Node.life {
			continue
		}
		n := op.Node
		r.Probe("restart-of-cleaning-up-channel")
		for _, w := range n.Wire {
			if w.Step >= op.Call.S0 && w.Life == op.Life && (w.Dir == "send" || (w.Dir == "sent" && w.Carrier == "graphsync")) && w.Sum.Req && (w.Sum.Restart && w.Sum.TID == x.chid.ID || w.Sum.RestartEx && w.Sum.RestartChi == x.chid.String()) {
				r.Failf("C10", "restart-of-cleaning-up-channel-reissued", n.Name+"|"+w.Sum.Kind(), "node %s restarted channel #%d while it was %s (cleanup only) and sent %s", n.Name, x.idx, datatransfer.Statuses[op.Pre.Status], w.Sum)
			}
		}
		for _, tc := range n.TpCalls {
			if tc.Kind == "open" && tc.ChID == x.chid && tc.Life == op.Life && tc.Step >= op.Call.S0 {
				r.Failf("C10", "restart-of-cleaning-up-channel-reissued", n.Name+"|transport-open", "node %s restarted channel #%d while it was %s (cleanup only) and opened a transport channel", n.Name, x.idx, datatransfer.Statuses[op.Pre.Status])
			}
		}
	}
	newReqs := 0
	for _, n := range []*Node{nr.A, nr.B} {
		for _, w := range n.Wire {
			if w.Sum.TID != x.chid.ID && !(w.Sum.RestartEx && w.Sum.RestartChi == x.chid.String()) {
				continue
			}
			if !(w.Dir == "send" || (w.Dir == "sent" && w.Carrier == "graphsync")) {
				continue
			}
			sm := w.Sum
			switch {
			case sm.Req && sm.New && n == nr.A:
				newReqs++
			case sm.Req && sm.Restart:
				r.Probe("restart-request-sent")
				if n != nr.A {
					r.Failf("C10", "restart-request-from-responder", n.Name, "responder %s sent a restart *request* for channel #%d", n.Name, x.idx)
				}
				if sm.Pull != x.pull || sm.VType != string(x.voucher.Type) || sm.VEnc != v0 || sm.Base != x.root.String() {
					r.Failf("C10", "restart-request-differs", fmt.Sprintf("pull=%v", x.pull), "restart request for channel #%d does not repeat the original request: pull=%v (orig %v) voucher type=%s voucher-equal=%v base-equal=%v", x.idx, sm.Pull, x.pull, sm.VType, sm.VEnc == v0, sm.Base == x.root.String())
				}
			case sm.RestartEx:
				r.Probe("restart-existing-sent")
				if n != nr.B {
					r.Failf("C10", "restart-existing-from-initiator", n.Name, "initiator sent a restart-existing-channel request for its own channel #%d", x.idx)
				}
				if sm.RestartChi != x.chid.String() {
					r.Failf("C10", "restart-existing-wrong-channel", n.Name, "restart-existing-channel request names %s, channel is %s", sm.RestartChi, x.chid)
				}
			}
		}
	}
	if newReqs > 1 {
		r.Failf("C10", "second-new-request", "", "initiator sent %d *new* requests for channel #%d (a restart must re-issue the request marked as restart)", newReqs, x.idx)
	}
	// accepted restart responses are preceded by a restart validation
	b := nr.B
	for _, w := range b.Wire {
		if !(w.Dir == "send" || (w.Dir == "sent" && w.Carrier == "graphsync")) || w.Sum.Req || !w.Sum.Restart || w.Sum.TID != x.chid.ID || !w.Sum.Accepted {
			continue
		}
		ok := false
		for _, vc := range b.ValCalls {
			if vc.Kind == "restart" && vc.ChID == x.chid && vc.Step <= w.Step && vc.Err == nil && vc.Result.Accepted {
				ok = true
			}
		}
		if !ok {
			r.Failf("C10", "restart-accepted-without-revalidation", "", "responder accepted a restart of channel #%d without its validator having accepted ValidateRestart before", x.idx)
		}
	}
	// any previous graphsync request of the channel was cancelled (or had ended) before a new one was issued
	for _, n := range []*Node{nr.A, nr.B} {
		var prev *GSCall
		for i := range n.AllGSCalls {
			c := &n.AllGSCalls[i]
			if c.Kind != "request" {
				continue
			}
			m := dtOf(c.Exts)
			if m == nil || m.TransferID() != x.chid.ID {
				continue
			}
			if prev != nil && prev.Life == c.Life {
				cancelled := false
				for _, d := range n.AllGSCalls {
					if d.Kind == "cancel" && d.ID == prev.ID && d.Step <= c.Step {
						cancelled = true
					}
				}
				if !cancelled && !prev.EndedBy(c.Step) {
					r.Failf("C10", "old-request-not-cancelled", n.Name, "node %s issued a new graphsync request for channel #%d while its previous request %s was neither cancelled nor finished", n.Name, x.idx, prev.ID)
				}
				r.Probe("second-gs-request")
			}
			prev = c
		}
	}
	// identity never changes across lives and restarts
	for _, n := range []*Node{nr.A, nr.B} {
		evs := n.EventsOf(x.chid)
		for i := 1; i < len(evs); i++ {
			a, bb := evs[0].Snap, evs[i].Snap
			if a.ChID != bb.ChID || a.BaseCid != bb.BaseCid || a.Selector != bb.Selector || a.Voucher0 != bb.Voucher0 || a.Sender != bb.Sender || a.Recipient != bb.Recipient {
				r.Failf("C10", "identity-changed", n.Name, "node %s channel #%d changed identity between events: %+v vs %+v", n.Name, x.idx, a, bb)
				break
			}
			if evs[i].Life == evs[i-1].Life+1 && !n.CrashedLives[evs[i].Life] {
				p, c := evs[i-1].Snap, evs[i].Snap
				if c.Queued < p.Queued || c.Sent < p.Sent || c.Received < p.Received || c.RIdx < p.RIdx || c.QIdx < p.QIdx || c.SIdx < p.SIdx {
					r.Failf("C10", "progress-lost-across-restart", n.Name, "node %s channel #%d lost recorded progress across a clean process restart: %v -> %v", n.Name, x.idx, p, c)
				}
			}
		}
	}
}

func (nr *netRun) checkChannelCount() {
	r := nr.r
	for _, n := range []*Node{nr.A, nr.B} {
		m, err := n.Mgr.InProgressChannels(ctxBG)
		if err != nil {
			continue
		}
		opened := len(nr.xs) // every attempted open may have created its channel before a crash cut the call short
		if len(m) > opened+nr.extraChannelsAllowed {
			r.Failf("C10", "extra-channel", n.Name, "node %s lists %d channels but only %d transfers were opened", n.Name, len(m), opened)
		}
		for _, id := range sortedBy(m, chidStr) {
			st := m[id]
			TakeSnap(r, "InProgressChannels", st)
			known := false
			for _, x := range nr.xs {
				if x.opened && x.chid == id {
					known = true
				}
			}
			if !known && nr.extraChannelsAllowed == 0 && !nr.crashed {
				r.Failf("C10", "unknown-channel", n.Name, "node %s lists channel %v that no open call returned", n.Name, id)
			}
		}
	}
}

// cancelBeforeOpen: F16 - the node's application closed the channel in the instant between its creation and its Open
// event (the responder learns the channel id from the validator callback, before acceptance has finished): the Cancel
// is applied first and the Open that follows takes the channel from Cancelling back to Requested.
func (nr *netRun) cancelBeforeOpen(n *Node, x *xfer) string {
	seenCancel := false
	for _, e := range lifeEvents(n, x.chid, n.life) {
		if e.Code == datatransfer.Cancel {
			seenCancel = true
		}
		if e.Code == datatransfer.Open && seenCancel {
			return "|cancel-applied-before-the-open-event"
		}
	}
	return ""
}

// ---------------------------------------------------------------- C11

func (nr *netRun) checkC11(x *xfer) {
	r := nr.r
	for _, op := range nr.ops {
		if op.X != x || (op.Kind != "Pause" && op.Kind != "Resume") || !op.Call.Returned || op.Call.Err != nil || op.Life != op.Node.life {
			continue
		}
		n, c := op.Node, op.Call
		// a pause/resume that races with, or follows, the same application's close of the channel (the close cancels the
		// transport request under it): the channel is being torn down - not judged
		racingClose := false
		for _, o2 := range nr.ops {
			if o2.X == x && o2.Node == n && (o2.Kind == "Close" || o2.Kind == "CloseWithError") && o2.Call.S0 <= c.S1 {
				racingClose = true // closing, or closed before: a pause or resume of such a channel is meaningless and merely ignored
			}
		}
		if racingClose {
			continue
		}
		wantReq := n == nr.A
		paused := op.Kind == "Pause"
		r.Probe("pause-resume-checked")
		found := false
		for _, w := range n.Wire {
			if w.Step < c.S0 || w.Sum.TID != x.chid.ID {
				continue
			}
			isUpd := w.Sum.Update && w.Sum.Paused == paused
			if !isUpd {
				continue
			}
			if w.Dir == "send" || (w.Dir == "sent" && w.Carrier == "graphsync") {
				if w.Sum.Req != wantReq {
					r.Failf("C11", "pause-message-wrong-kind", n.Name+"|"+op.Kind, "node %s announced its %s of channel #%d with a %s", n.Name, op.Kind, x.idx, w.Sum.Kind())
				} else {
					found = true
				}
			}
		}
		// a resume travels as an extension of the graphsync unpause: handing it to the transport counts
		for _, g := range n.AllGSCalls {
			if (g.Kind == "unpause" || g.Kind == "update") && g.Step >= c.S0 && g.Err == "" {
				if m := dtOf(g.Exts); m != nil && m.TransferID() == x.chid.ID && m.IsUpdate() && m.IsPaused() == paused {
					if m.IsRequest() != wantReq {
						r.Failf("C11", "pause-message-wrong-kind", n.Name+"|"+op.Kind, "node %s handed the transport a resume message of the wrong kind for channel #%d", n.Name, x.idx)
					} else {
						found = true
					}
				}
			}
		}
		failedUnpause := ""
		for _, g := range n.AllGSCalls {
			if g.Kind == "unpause" && g.Step >= c.S0 && g.Step <= c.S1 && g.Err == "request is not paused" {
				failedUnpause = "|after-unpause-of-a-not-yet-paused-request-failed"
			}
		}
		if !found && (paused || op.HadActiveGS) {
			r.Failf("C11", "pause-not-announced", n.Name+"|"+op.Kind+failedUnpause, "node %s: %s of channel #%d returned nil but no update(paused=%v) message of its role was handed to the network or transport", n.Name, op.Kind, x.idx, paused)
		}
		if op.HadActiveGS {
			kind := "pause"
			if !paused {
				kind = "unpause"
			}
			ok := false
			for _, g := range n.AllGSCalls {
				if g.Kind == kind && g.Step >= c.S0 && g.Step <= c.S1 {
					ok = true
				}
			}
			if !ok {
				r.Failf("C11", "pause-not-applied-to-transport", n.Name+"|"+op.Kind, "node %s: %s of channel #%d returned nil with a live graphsync request, but graphsync was not told to %s", n.Name, op.Kind, x.idx, kind)
			}
		}
	}
	// a successful local resume clears the local flag while the transfer is still in progress
	for _, n := range []*Node{nr.A, nr.B} {
		var mine []*appOp
		for _, op := range nr.ops {
			if op.X == x && op.Node == n && (op.Kind == "Pause" || op.Kind == "Resume") {
				mine = append(mine, op)
			}
		}
		for i, op := range mine {
			if op.Kind != "Resume" || !op.PostOK || op.Call.Err != nil || n != nr.A || op.Life != n.life {
				continue
			}
			// no other pause of this node overlapping or following before the post-state was read
			clean := true
			for j, o := range mine {
				if j != i && o.Kind == "Pause" && o.Call.S0 <= op.Call.S1+50 && (!o.Call.Returned || o.Call.S1 >= op.Call.S0) {
					clean = false
				}
			}
			if clean && op.Post.Status.Transferring() && op.Post.IPaused {
				r.Failf("C11", "resume-ignored-while-transferring", datatransfer.Statuses[op.Post.Status], "node A resumed channel #%d (call returned nil) while it was %s, yet its own InitiatorPaused flag is still set", x.idx, datatransfer.Statuses[op.Post.Status])
			}
		}
	}
	// agreement at quiescence (fault-free runs, both sides Ongoing)
	if len(r.Faults) == 0 {
		sa, okA := nr.A.State(x.chid)
		sb, okB := nr.B.State(x.chid)
		// only when every announced pause/resume actually reached the peer (a resume issued while the requester is away
		// is legitimately queued in the transport until the next request)
		// ... and no graphsync message is still undelivered or stuck in its handler (a wedged hook is C20's business)
		allDelivered := !nr.w.GS.Busy()
		for _, op := range nr.ops {
			if op.X != x || (op.Kind != "Pause" && op.Kind != "Resume") || op.Call.Err != nil || !op.Call.Returned {
				continue
			}
			peerN := nr.other(op.Node)
			got := false
			for _, w := range peerN.Wire {
				if w.Dir == "recv" && w.Sum.Update && w.Sum.TID == x.chid.ID && w.Sum.Paused == (op.Kind == "Pause") && w.Step >= op.Call.S0 {
					got = true
				}
			}
			if !got {
				allDelivered = false
			}
		}
		if okA && okB && sa.Status == datatransfer.Ongoing && sb.Status == datatransfer.Ongoing && allDelivered {
			r.Probe("both-ongoing-at-quiescence")
			if sa.IPaused != sb.IPaused || sa.RPaused != sb.RPaused {
				what := "initiator-flag"
				if sa.IPaused == sb.IPaused {
					what = "responder-flag"
				}
				cause := ""
				for _, n := range []*Node{nr.A, nr.B} {
					for _, g := range n.AllGSCalls {
						if g.Kind == "unpause" && g.Err == "request is not paused" {
							cause = "|after-unpause-of-a-not-yet-paused-request-failed"
						}
					}
				}
				if cause == "" && what == "responder-flag" && sb.RPaused && !sa.RPaused {
					// F8: the responder paused itself at the data limit of a pull; the notice travels only as an extension of
					// the block's graphsync response, and the initiator had paused (= cancelled at the responder) its request
					// at that moment, so graphsync dropped the message
					limStep := -1
					for _, e := range nr.B.EventsOf(x.chid) {
						if e.Code == datatransfer.DataLimitExceeded {
							limStep = e.Step
						}
					}
					if limStep >= 0 && x.pull {
						pausedByA := false
						for _, g := range nr.A.AllGSCalls {
							if g.Kind == "pause" && g.Step <= limStep && g.Err == "" {
								pausedByA = true
							}
							if g.Kind == "unpause" && g.Step <= limStep && g.Err == "" {
								pausedByA = false
							}
						}
						if pausedByA {
							cause = "|limit-pause-notice-lost-while-initiator-had-paused-its-request"
						}
					}
				}
				if cause == "" && what == "responder-flag" && sb.RPaused && !sa.RPaused {
					// F13: a voucher-result message carries the responder's pause flag as it was when the message was built; sent
					// before the responder recorded its pause (e.g. the validator's ForcePause of the acceptance still in progress)
					// and delivered - libp2p and graphsync are two carriers - after the message that announced the pause, it
					// makes the initiator record ResumeResponder although nobody resumed
					pB, pA := -1, -1
					for _, e := range nr.B.EventsOf(x.chid) {
						if e.Code == datatransfer.PauseResponder || e.Code == datatransfer.DataLimitExceeded {
							pB = e.Step
						}
					}
					// the earliest moment the initiator can have heard of a pause: when the responder handed its first pause
					// notice to a carrier (the initiator's own announcement of PauseResponder lags behind the receipt)
					for _, w := range nr.B.Wire {
						if (w.Dir == "send" || w.Dir == "sent") && !w.Sum.Req && w.Sum.Paused && w.Sum.TID == x.chid.ID && (pA < 0 || w.Step < pA) {
							pA = w.Step
						}
					}
					sentBefore, recvAfter := false, false
					for _, w := range nr.B.Wire {
						if w.Dir == "send" && !w.Sum.Req && w.Sum.Voucher && !w.Sum.Paused && w.Sum.TID == x.chid.ID && pB >= 0 && w.Step < pB {
							sentBefore = true
						}
					}
					for _, w := range nr.A.Wire {
						if w.Dir == "recv" && !w.Sum.Req && w.Sum.Voucher && !w.Sum.Paused && w.Sum.TID == x.chid.ID && pA >= 0 && w.Step > pA {
							recvAfter = true
						}
					}
					// ... and that stale message is what made the initiator resume last
					lastIsResume, lastStep := false, -1
					for _, e := range nr.A.EventsOf(x.chid) {
						if e.Code == datatransfer.PauseResponder || e.Code == datatransfer.ResumeResponder {
							lastIsResume, lastStep = e.Code == datatransfer.ResumeResponder, e.Step
						}
					}
					staleBeforeLast := false
					for _, w := range nr.A.Wire {
						if w.Dir == "recv" && !w.Sum.Req && w.Sum.Voucher && !w.Sum.Paused && w.Sum.TID == x.chid.ID && pA >= 0 && w.Step > pA && w.Step <= lastStep {
							staleBeforeLast = true
						}
					}
					if sentBefore && recvAfter && lastIsResume && staleBeforeLast {
						cause = "|stale-pause-flag-of-a-voucher-result-overtaken-by-the-pause-announcement"
					}
				}
				r.Failf("C11", "pause-views-disagree", what+cause, "channel #%d at quiescence (fault-free, both Ongoing): A sees (init=%v,resp=%v), B sees (init=%v,resp=%v)", x.idx, sa.IPaused, sa.RPaused, sb.IPaused, sb.RPaused)
			}
		}
	}
}

// ---------------------------------------------------------------- C04

func (nr *netRun) checkC04(x *xfer) {
	r := nr.r
	b := nr.B
	// every accepting new/restart reply is backed by an accepting validator call made before it
	for _, w := range b.Wire {
		if !(w.Dir == "send" || (w.Dir == "sent" && w.Carrier == "graphsync")) || w.Sum.Req || w.Sum.TID != x.chid.ID {
			continue
		}
		if !(w.Sum.New || w.Sum.Restart) {
			continue
		}
		kindOK := func(k string) bool {
			if w.Sum.Restart {
				return k == "restart"
			}
			return k == "push" || k == "pull"
		}
		var backing *ValCall
		for i := range b.ValCalls {
			vc := &b.ValCalls[i]
			if vc.ChID == x.chid && kindOK(vc.Kind) && vc.Step <= w.Step {
				backing = vc
			}
		}
		if w.Sum.Accepted {
			r.Probe("accepted-reply-checked")
			if backing == nil || backing.Err != nil || !backing.Result.Accepted {
				r.Failf("C04", "accepted-without-validation", w.Sum.Kind(), "responder answered Accepted for channel #%d (%s) but the registered validator had not accepted before (last call: %+v)", x.idx, w.Sum.Kind(), backing)
				continue
			}
			if string(backing.Type) != string(x.voucher.Type) {
				r.Failf("C04", "wrong-validator", w.Sum.Kind(), "request with voucher type %s was validated by the validator registered for %s", x.voucher.Type, backing.Type)
			}
			// voucher result and pause decision are the validator's
			wantVR := ""
			if backing.Result.VoucherResult != nil {
				wantVR = encNode(backing.Result.VoucherResult.Voucher)
			}
			if w.Sum.VEnc != wantVR && !(wantVR == "" && w.Sum.EmptyVR) {
				r.Failf("C04", "reply-voucher-result", w.Sum.Kind(), "accepted reply for channel #%d carries voucher result %q, validator returned %q", x.idx, w.Sum.VEnc, wantVR)
			}
			if w.Sum.New && w.Sum.Paused != backing.Result.ForcePause {
				r.Failf("C04", "reply-pause-decision", w.Sum.Kind(), "accepted reply for channel #%d says paused=%v, validator's ForcePause=%v", x.idx, w.Sum.Paused, backing.Result.ForcePause)
			}
		} else if backing != nil && backing.Err == nil && backing.Result.Accepted && w.Sum.New {
			// refused although validated: only legitimate when channel creation failed (duplicate) — reported by C18's oracle
			r.Probe("refused-despite-validation")
		}
	}
	// a rejecting validation update fails the channel and closes its transport channel
	for _, op := range nr.ops {
		if op.X != x || op.Kind != "UpdateValidationStatus" || op.Res.Accepted || !op.Call.Returned || op.Life != b.life {
			continue
		}
		if op.Call.Err != nil {
			continue // e.g. the channel had already ended
		}
		r.Probe("revalidation-rejected")
		if s, ok := b.State(x.chid); ok && s.Status != datatransfer.Failed {
			// unless it had already ended otherwise
			other := false
			for _, e := range b.EventsOf(x.chid) {
				if (isTerminal(e.Snap.Status) || isCleanup(e.Snap.Status)) && terminalOf(e.Snap.Status) != datatransfer.Failed && e.Step <= op.Call.S1 {
					other = true
				}
			}
			if !other {
				r.Failf("C04", "rejected-revalidation-not-failed", datatransfer.Statuses[s.Status], "the responder's application rejected the revalidation of channel #%d but the channel is %s", x.idx, datatransfer.Statuses[s.Status])
			}
		}
		if op.HadActiveGS {
			closed := false
			for _, g := range b.AllGSCalls {
				if g.Kind == "cancel" && g.Step >= op.Call.S0 {
					closed = true
				}
			}
			// was the transport's CloseChannel reached at all, and what did it say?
			cause := "close-never-called"
			for _, tc := range b.TpCalls {
				if tc.Kind == "close" && tc.ChID == x.chid && tc.Step >= op.Call.S0 && tc.Life == b.life {
					cause = "close-called-but-failed"
					if tc.Err != nil && strings.Contains(tc.Err.Error(), "channel not found") || tc.Err != nil && strings.Contains(tc.Err.Error(), datatransfer.ErrChannelNotFound.Error()) {
						cause = "close-after-cleanup-found-no-channel"
					}
				}
			}
			if !closed && b.GS.ActiveFor(x.chid.ID) {
				r.Failf("C04", "rejected-revalidation-transport-not-closed", cause, "the responder's application rejected the revalidation of channel #%d (graphsync request alive at the time) but the transport channel was never closed: %s", x.idx, b.GS.DescribeFor(x.chid.ID))
			}
		}
	}
	// a restart request that the validator refuses: "its transport channel is closed". (A restart carried by a graphsync
	// request is refused through the hook, which terminates that request; one that arrived over libp2p needs CloseChannel.)
	for _, vc := range b.ValCalls {
		if vc.ChID != x.chid || vc.Kind != "restart" || vc.Life != b.life || (vc.Err == nil && vc.Result.Accepted) {
			continue
		}
		carrier := ""
		for _, w := range b.Wire {
			if w.Dir == "recv" && w.Sum.Req && w.Sum.Restart && w.Sum.TID == x.chid.ID && w.Step <= vc.Step && w.Life == b.life {
				carrier = w.Carrier
			}
		}
		if carrier != "libp2p" {
			continue
		}
		r.Probe("restart-refused-by-validator")
		closed := false
		for _, tc := range b.TpCalls {
			if tc.Kind == "close" && tc.ChID == x.chid && tc.Step >= vc.Step && tc.Life == b.life {
				closed = true
			}
		}
		if !closed && b.GS.ActiveFor(x.chid.ID) {
			// (a transport channel whose graphsync request is gone anyway - e.g. ended by the connection cut that made
			// the initiator restart - has nothing left to close)
			cause := ""
			for _, w := range b.Wire {
				if w.Dir == "send" && !w.Sum.Req && w.Sum.Restart && !w.Sum.Accepted && w.Sum.TID == x.chid.ID && w.Step >= vc.Step && w.Err != "" {
					cause = "refusal-could-not-be-sent"
				}
			}
			r.Failf("C04", "refused-restart-transport-not-closed", cause, "the validator refused the restart of channel #%d (step %d); the responder never closed the channel's transport channel and its graphsync request is still alive: %s", x.idx, vc.Step, b.GS.DescribeFor(x.chid.ID))
		}
	}
	// the channel exists on the responder only if some validation accepted it
	if _, ok := b.State(x.chid); ok {
		acc := false
		for _, vc := range b.ValCalls {
			if vc.ChID == x.chid && (vc.Kind == "push" || vc.Kind == "pull") && vc.Err == nil && vc.Result.Accepted {
				acc = true
			}
		}
		if !acc {
			r.Failf("C04", "channel-without-validation", "", "responder holds channel #%d although no validation of the new request accepted it", x.idx)
		}
	}
	// records limit and finalization requirement: last snapshot before the first data event
	evs := b.EventsOf(x.chid)
	var first *ValCall
	for i := range b.ValCalls {
		vc := &b.ValCalls[i]
		if vc.ChID == x.chid && (vc.Kind == "push" || vc.Kind == "pull") && vc.Err == nil && vc.Result.Accepted {
			first = vc
			break
		}
	}
	if first != nil && len(evs) > 0 {
		var snap *Snap
		for i := range evs {
			c := evs[i].Code
			if c == datatransfer.TransferInitiated || c == datatransfer.DataQueued || c == datatransfer.DataReceived || c == datatransfer.DataSent || c == datatransfer.DataLimitExceeded {
				// acceptance processing is complete by now; an application update before this point changes the terms
				upd := false
				for _, op := range nr.ops {
					if op.X == x && op.Kind == "UpdateValidationStatus" && op.Call.S0 <= evs[i].Step {
						upd = true
					}
				}
				if !upd && evs[i].Life == 0 {
					snap = &evs[i].Snap
				}
				break
			}
		}
		if snap != nil && !isCleanup(snap.Status) && !isTerminal(snap.Status) {
			if snap.Limit != first.Result.DataLimit || snap.ReqFin != first.Result.RequiresFinalization {
				r.Failf("C04", "terms-not-recorded", "", "responder channel #%d records limit=%d finalization=%v, validator decided limit=%d finalization=%v", x.idx, snap.Limit, snap.ReqFin, first.Result.DataLimit, first.Result.RequiresFinalization)
			}
		}
	}
}

// ---------------------------------------------------------------- C02 (net) : state at the end equals the state announced with the terminal event

func (nr *netRun) checkC02(x *xfer) {
	r := nr.r
	for _, n := range []*Node{nr.A, nr.B} {
		evs := lifeEvents(n, x.chid, n.life)
		for _, e := range evs {
			if isTerminal(e.Snap.Status) {
				if s, ok := n.State(x.chid); ok && s.Key() != e.Snap.Key() {
					r.Failf("C02", "terminal-state-changed", n.Name+"|"+strings.Join(e.Snap.Diff(s), "+"), "node %s channel #%d: state at end of run %v differs from the state announced with the terminal event %v", n.Name, x.idx, s, e.Snap)
				}
				break
			}
		}
	}
}

// ---------------------------------------------------------------- C19 (net): voucher / result logs

func (nr *netRun) checkC19(x *xfer) {
	r := nr.r
	a, b := nr.A, nr.B
	sa, okA := a.State(x.chid)
	sb, okB := b.State(x.chid)
	// initiator: a voucher is recorded only after its send succeeded; failed sends leave the log unchanged. The same
	// content may be sent several times (also twice in a row): every successful send is one entry, in order.
	type tally struct{ ok, fail int }
	for _, kind := range []string{"SendVoucher", "SendVoucherResult"} {
		log, have, final := sa.Vouchers, okA, sa.Status
		what, who := "voucher-log", "initiator"
		if kind == "SendVoucherResult" {
			log, have, final = sb.Results, okB, sb.Status
			what, who = "result-log", "responder"
		}
		if !have {
			continue
		}
		by := map[string]*tally{}
		var order, okSeq []string
		for _, op := range nr.ops {
			if op.X != x || op.Kind != kind || !op.Call.Returned || op.Life != op.Node.life {
				continue
			}
			t := by[op.Arg]
			if t == nil {
				t = &tally{}
				by[op.Arg] = t
				order = append(order, op.Arg)
			}
			if op.Call.Err == nil {
				t.ok++
				okSeq = append(okSeq, op.Arg)
				if kind == "SendVoucher" {
					r.Probe("voucher-sent")
				}
			} else {
				t.fail++
			}
		}
		for _, arg := range order {
			t, n := by[arg], count(log, arg)
			if t.ok > 1 {
				r.Probe("same-content-sent-repeatedly")
			}
			if n > t.ok {
				cause := "more-than-sent"
				if t.fail > 0 {
					cause = "send-failed|recorded"
				}
				r.Failf("C19", what, cause, "%s sent %s successfully %d time(s) (and %d failed sends) but its log holds it %d times", who, arg, t.ok, t.fail, n)
			}
			if n < t.ok && !isTerminal(final) {
				r.Failf("C19", what, fmt.Sprintf("sent-ok=%d|recorded=%d", t.ok, n), "%s sent %s successfully %d time(s) but its log holds it %d times", who, arg, t.ok, n)
			}
		}
		if !isTerminal(final) {
			// order: the successful sends, in call order, form a subsequence of the log
			i := 0
			for _, e := range log {
				if i < len(okSeq) && e == okSeq[i] {
					i++
				}
			}
			if i < len(okSeq) {
				r.Failf("C19", what, "order", "%s's log %v does not contain its successful sends %v in order", who, log, okSeq)
			}
		}
	}
	// responder: each voucher it received is recorded exactly once
	if okB && !isTerminal(sb.Status) {
		for _, w := range b.Wire {
			if w.Dir == "recv" && w.Sum.Req && w.Sum.Voucher && w.Sum.TID == x.chid.ID && w.Life == b.life {
				enc := w.Sum.VType + ":" + w.Sum.VEnc
				// a voucher that arrives before the responder knows the channel (a pull's opening request travels by
				// graphsync, the voucher by libp2p: no order between them) is refused and cannot be recorded
				openStep := -1
				if evs := b.EventsOf(x.chid); len(evs) > 0 {
					openStep = evs[0].Step
				}
				recvN, recvKnown := 0, 0
				for _, w2 := range b.Wire {
					if w2.Dir == "recv" && w2.Sum.Req && w2.Sum.Voucher && w2.Sum.TID == x.chid.ID && w2.Sum.VType+":"+w2.Sum.VEnc == enc {
						recvN++
						if openStep >= 0 && w2.Step >= openStep {
							recvKnown++
						}
					}
				}
				if n := count(sb.Vouchers, enc); n > recvN || n < recvKnown {
					r.Failf("C19", "received-voucher-log", fmt.Sprintf("received=%d|recorded=%d", recvN, n), "responder received voucher %s %d time(s) (%d after it announced the channel) but records it %d time(s)", enc, recvN, recvKnown, n)
				}
			}
		}
	}
}

func count(l []string, s string) int {
	n := 0
	for _, x := range l {
		if x == s {
			n++
		}
	}
	return n
}

// ---------------------------------------------------------------- C14 (net): persistent restart failure ends in a close-with-error

// ---------------------------------------------------------------- C08 (manager level)

// checkC08: the responder's data limit at manager level. (a) While the responder is paused at its limit the limited
// total (queued for a pull, received for a push) does not grow. (b) An accepting validation update issued while so
// paused resumes the channel exactly when its new limit is zero or exceeds the progress made so far; otherwise the
// channel stays paused (until a later update).
func (nr *netRun) checkC08(x *xfer) {
	r := nr.r
	b := nr.B
	lim := func(s Snap) uint64 {
		if s.IsPull {
			return s.Queued
		}
		return s.Received
	}
	for life := 0; life <= b.life; life++ {
		evs := lifeEvents(b, x.chid, life)
		// (a) no progress while paused at the limit
		pausedAt, pausedLB, prevStep := -1, -1, -1
		var at uint64
		for _, e := range evs {
			ps := prevStep
			prevStep = e.Step
			switch e.Code {
			case datatransfer.DataLimitExceeded:
				// (the pause was applied somewhere between the previous announcement and this one)
				pausedAt, pausedLB, at = e.Step, ps, lim(e.Snap)
				r.Probe("limit-pause-announced")
			case datatransfer.ResumeResponder, datatransfer.SetDataLimit:
				// a new limit / a resume ends the interval (SetDataLimit precedes the resume decision)
				if e.Code == datatransfer.ResumeResponder {
					pausedAt = -1
				}
			default:
				if pausedAt >= 0 && e.Snap.RPaused && lim(e.Snap) > at && !isTerminal(e.Snap.Status) {
					// the responder's own application resuming the channel explicitly (ResumeDataTransferChannel) lets data
					// flow again; its ResumeResponder may be announced after the first progress event
					byApp := false
					for _, o2 := range nr.ops {
						if o2.X == x && o2.Node == b && o2.Kind == "Resume" && o2.Life == life && o2.Call.S0 <= e.Step && (!o2.Call.Returned || o2.Call.S1 >= pausedLB) {
							byApp = true
						}
					}
					if byApp {
						pausedAt = -1
						continue
					}
					// F14: a restart request validated *before* the limit was reached (decision: not paused); the request it opens
					// afterwards runs un-paused - the pause signal went to a block report of the request being replaced
					cause := ""
					for _, vc := range b.ValCalls {
						if vc.ChID == x.chid && vc.Kind == "restart" && vc.Life == life && vc.Step < pausedAt {
							for _, tc := range b.TpCalls {
								if tc.Kind == "open" && tc.Restart && tc.ChID == x.chid && tc.Life == life && tc.Step > vc.Step && tc.Step < e.Step {
									cause = "|restart-validated-before-the-limit-was-reached-and-carried-out-after"
								}
							}
							// (a pull's restart arrives as a new graphsync request: the responder opens nothing itself; the restart
							// is carried out when its Restart event is applied - here after the limit pause)
							for _, e2 := range evs {
								if e2.Code == datatransfer.Restart && e2.Step >= pausedLB && e2.Step > vc.Step && e2.Step < e.Step {
									cause = "|restart-validated-before-the-limit-was-reached-and-carried-out-after"
								}
							}
						}
					}
					if cause == "" {
						// F14, seen from the wire: after the limit pause the responder handed out an *accepting restart response
						// that says "not paused"* - its pause decision was taken on a channel state read before the limit was
						// reached (the read and the validation are separate steps; a block report slipped in between)
						for _, w := range b.Wire {
							if (w.Dir == "send" || (w.Dir == "sent" && w.Carrier == "graphsync")) && !w.Sum.Req && w.Sum.Restart && w.Sum.Accepted && !w.Sum.Paused && w.Sum.TID == x.chid.ID && w.Life == life && w.Step > pausedLB && w.Step < e.Step {
								// ... and the state its validation was handed was indeed still below the limit (a response that says
								// "not paused" for a state that was already at the limit is a different defect)
								var last *ValCall
								for i := range b.ValCalls {
									vc := &b.ValCalls[i]
									if vc.ChID == x.chid && vc.Kind == "restart" && vc.Life == life && vc.Step <= w.Step {
										last = vc
									}
								}
								if last != nil && last.PreOK && (last.Result.DataLimit == 0 || lim(last.Pre) < last.Result.DataLimit) {
									cause = "|restart-validated-before-the-limit-was-reached-and-carried-out-after"
								}
							}
						}
					}
					if cause == "" {
						// F14, general form: the latest restart decision before the forbidden progress predates the limit pause and
						// was taken on a below-limit state, and the restart was still being carried out when the pause hit (the
						// request it led to started - TransferInitiated / Opened / Restart announced - after the pause)
						var last *ValCall
						for i := range b.ValCalls {
							vc := &b.ValCalls[i]
							if vc.ChID == x.chid && vc.Kind == "restart" && vc.Life == life && vc.Step < e.Step {
								last = vc
							}
						}
						if last != nil && last.Step < pausedAt && last.PreOK && (last.Result.DataLimit == 0 || lim(last.Pre) < last.Result.DataLimit) {
							for _, e2 := range evs {
								if (e2.Code == datatransfer.TransferInitiated || e2.Code == datatransfer.Opened || e2.Code == datatransfer.Restart) && e2.Step >= pausedLB && e2.Step > last.Step && e2.Step < e.Step {
									cause = "|restart-validated-before-the-limit-was-reached-and-carried-out-after"
								}
							}
						}
					}
					if cause == "" {
						// F15: a restart validated while paused at the limit: the new request is opened first and paused
						// afterwards (receiveRequest: OpenChannel, then PauseChannel); a block that arrives in between is accounted
						for _, tc := range b.TpCalls {
							if tc.Kind == "open" && tc.Restart && tc.ChID == x.chid && tc.Life == life && tc.Step > pausedLB && tc.Step < e.Step {
								for _, tp := range b.TpCalls {
									if tp.Kind == "pause" && tp.ChID == x.chid && tp.Life == life && tp.Step >= tc.Done {
										cause = "|restarted-request-opened-before-it-was-paused"
									}
								}
							}
						}
					}
					r.Failf("C08", "progress-while-paused-at-limit", datatransfer.Events[e.Code]+cause, "responder channel #%d paused at its data limit with %d limited bytes (step %d) shows %d after %s at step %d although nothing resumed it", x.idx, at, pausedAt, lim(e.Snap), datatransfer.Events[e.Code], e.Step)
					pausedAt = -1
				}
			}
		}
	}
	// C03: a responder awaiting finalization is released only by an update that no longer requires it
	for _, op := range nr.ops {
		if op.X != x || op.Node != b || op.Kind != "UpdateValidationStatus" || !op.Call.Returned || op.Call.Err != nil || op.Life != b.life || !op.PreOK || !op.PostOK {
			continue
		}
		if op.Pre.Status == datatransfer.Finalizing && op.Res.Accepted && op.Res.RequiresFinalization {
			overl := false
			for _, o2 := range nr.ops {
				if o2 != op && o2.X == x && o2.Node == b && (o2.Kind == "UpdateValidationStatus" || o2.Kind == "Resume") && o2.Call.S0 <= op.Call.S1 && (!o2.Call.Returned || o2.Call.S1 >= op.Call.S0) {
					overl = true
				}
			}
			if overl {
				continue
			}
			r.Probe("non-releasing-update-while-finalizing")
			if op.Post.Status != datatransfer.Finalizing || !op.Post.RPaused {
				r.Failf("C03", "finalizing-released-by-non-releasing-update", datatransfer.Statuses[op.Post.Status], "responder channel #%d was Finalizing; an accepting update that still requires finalization (limit %d) left it %s (responder paused=%v)", x.idx, op.Res.DataLimit, datatransfer.Statuses[op.Post.Status], op.Post.RPaused)
			}
		}
	}
	// (b) the resume rule
	var ups []*appOp
	for _, op := range nr.ops {
		if op.X == x && op.Node == b && op.Kind == "UpdateValidationStatus" {
			ups = append(ups, op)
		}
	}
	for i, op := range ups {
		if !op.Call.Returned || op.Call.Err != nil || !op.Res.Accepted || op.Life != b.life || !op.PreOK {
			continue
		}
		pre := op.Pre
		if !pre.RPaused || pre.IPaused || pre.Status != datatransfer.Ongoing {
			continue // judged only for a responder that is transferring and paused (its limit, or the validator's pause)
		}
		progress := lim(pre)
		wantResume := op.Res.DataLimit == 0 || op.Res.DataLimit > progress
		// what became of the pause: the state queried right after the call returned (the query flushes the channel's
		// event queue, so this does not depend on when subscribers hear of it)
		if !op.PostOK {
			continue
		}
		until := 1 << 60
		if i+1 < len(ups) {
			until = ups[i+1].Call.S0
		}
		resumed, ended := !op.Post.RPaused, false
		if isTerminal(op.Post.Status) || isCleanup(op.Post.Status) || op.Post.Status.InFinalization() {
			ended = true
		}
		if op.Post.RPaused && lim(op.Post) > progress {
			ended = true // resumed and already at the next limit (or a restart moved data): not this rule's business
		}
		// the responder's own application may resume the channel explicitly (ResumeDataTransferChannel): not the update's doing
		for _, o2 := range nr.ops {
			if o2.X == x && o2.Node == b && o2.Kind == "Resume" && o2.Call.S1 >= op.Call.S0 && o2.Call.S0 < until {
				ended = true
			}
		}
		// two updates of the same channel in flight at once (each DataLimitExceeded is answered by its own application
		// task; a call can take long when its response has to cross a cut connection): the state after one of them cannot
		// be attributed
		for j, o2 := range ups {
			if j != i && o2.Call.S0 <= op.Call.S1 && (!o2.Call.Returned || o2.Call.S1 >= op.Call.S0) {
				ended = true
			}
		}
		if ended {
			continue
		}
		r.Probe(fmt.Sprintf("revalidation-while-paused:resume=%v", wantResume))
		if wantResume && !resumed {
			r.Failf("C08", "update-above-progress-did-not-resume", fmt.Sprintf("limit0=%v", op.Res.DataLimit == 0), "an accepting update of channel #%d with new limit %d (progress %d) did not resume the paused responder", x.idx, op.Res.DataLimit, progress)
		}
		if !wantResume && resumed {
			r.Failf("C08", "update-not-above-progress-resumed", "", "an accepting update of channel #%d whose new limit %d does not exceed the progress made so far (%d) resumed the responder", x.idx, op.Res.DataLimit, progress)
		}
	}
}

func (nr *netRun) checkC14() {
	r := nr.r
	if !nr.cfg.sendFail || nr.sendFailAt == 0 {
		return
	}
	for _, n := range []*Node{nr.A, nr.B} {
		if n.Cfg.Monitor == nil || n != nr.A {
			continue
		}
		for _, x := range nr.xs {
			if !x.opened {
				continue
			}
			sawErr := false
			for _, e := range n.EventsOf(x.chid) {
				if (e.Code == datatransfer.SendDataError || e.Code == datatransfer.ReceiveDataError) && e.Step >= nr.sendFailAt && !isTerminal(e.Snap.Status) && !isCleanup(e.Snap.Status) {
					sawErr = true
				}
			}
			if !sawErr {
				continue
			}
			r.Probe("monitored-channel-hit-by-persistent-failure")
			if s, ok := n.State(x.chid); ok && !isTerminal(s.Status) {
				r.Failf("C14", "persistent-failure-not-closed", "netsim|"+datatransfer.Statuses[s.Status], "node %s monitors channel #%d; after a transport error every restart message failed to send for 5 simulated minutes, yet the channel was never closed with an error (status %s after settle)", n.Name, x.idx, datatransfer.Statuses[s.Status])
			}
		}
	}
}

// checkC04NotAccepted: a new request that no validator accepted creates no channel, opens no transport channel and is
// answered "not accepted"; the node does not crash (panics are reported by the generic oracle).
func (nr *netRun) checkC04NotAccepted(x *xfer) {
	r := nr.r
	b := nr.B
	if x.chid.ID == 0 {
		return
	}
	got := false
	for _, w := range b.Wire {
		if w.Dir == "recv" && w.Sum.Req && w.Sum.New && w.Sum.TID == x.chid.ID {
			got = true
		}
	}
	if !got {
		return
	}
	why := "validator rejected"
	switch {
	case x.raw:
		why = "request without " + strings.TrimPrefix(x.rawKind, "no-")
	case x.voucher.Type == "TX":
		why = "voucher type not registered"
	case x.newOutcome == 2:
		why = "validator returned an error"
	}
	r.Probe("not-accepted-request:" + why)
	if _, ok := b.State(x.chid); ok {
		r.Failf("C04", "channel-created-without-acceptance", why, "responder created channel state for request #%d although the %s", x.idx, why)
	}
	for _, g := range b.AllGSCalls {
		if g.Kind == "request" {
			if m := dtOf(g.Exts); m != nil && m.TransferID() == x.chid.ID {
				r.Failf("C04", "transport-opened-without-acceptance", why, "responder opened a transport channel (graphsync request) for request #%d although the %s", x.idx, why)
			}
		}
	}
	replied, acceptedReply := false, false
	for _, w := range b.Wire {
		if (w.Dir == "send" || (w.Dir == "sent" && w.Carrier == "graphsync")) && !w.Sum.Req && w.Sum.TID == x.chid.ID && w.Sum.New {
			replied = true
			if w.Sum.Accepted {
				acceptedReply = true
			}
			if x.newOutcome == 1 && x.rejectResult && w.Sum.VEnc != encNode(basicnode.NewString(fmt.Sprintf("vr-reject-%d", x.idx))) {
				r.Failf("C04", "reply-voucher-result", "rejection", "the rejection of request #%d does not carry the validator's voucher result", x.idx)
			}
		}
	}
	if acceptedReply {
		r.Failf("C04", "accepted-without-validation", why, "responder answered Accepted for request #%d although the %s", x.idx, why)
	}
	if !replied && len(r.Faults) == 0 {
		r.Failf("C04", "no-reply-to-refused-request", why, "responder never answered request #%d (%s)", x.idx, why)
	}
}
