package sim

import (
	"os"
	"strings"
	"fmt"
	"sort"
	"time"

	datatransfer "github.com/filecoin-project/go-data-transfer/v2"

	"verif/simrt"
)

// C18, identity part: transfer ids issued under concurrent opens and by successive manager lifetimes on the same
// datastore; a locally colliding id (a later manager that reads the very same clock value as its predecessor)
// must fail and leave the existing channel untouched.

type idOpen struct {
	x      *xfer
	s0, s1 int
	life   int
}

func (nr *netRun) openTracked(x *xfer, log *[]*idOpen) {
	o := &idOpen{x: x, s0: nr.r.S.Steps, life: nr.A.life}
	nr.open(x)
	o.s1 = nr.r.S.Steps
	*log = append(*log, o)
}

func idsScenario(r *RunCtx) {
	cfg := netCfg{holdOpen: r.Intn(2) == 0, limits: r.Intn(2) == 0, finalization: r.Intn(3) == 0, stores: r.Intn(2) == 0}
	nr := newNetRun(r, cfg)
	if !nr.A.Start() || !nr.B.Start() {
		return
	}
	nr.registerConfigurers()
	nr.installApps()
	var opens []*idOpen
	lifetimes := 1 + r.Intn(3)
	nextIdx := 0
	// dense preemption: the id generator is a handful of statements inside a long open call
	r.S.PreMaxGap = []int{6, 20, 60, 200}[r.Intn(4)]
	r.S.PreNoStop = true
	// tight: the clock (almost) stands still between manager lifetimes, so that later managers collide with existing ids
	tight := r.Intn(3) == 0
	for l := 0; l < lifetimes; l++ {
		k := 2 + r.Intn(5)
		var batch []*xfer
		for i := 0; i < k; i++ {
			x := nr.genXfer(nextIdx)
			nextIdx++
			if x == nil {
				return
			}
			nr.xs = append(nr.xs, x)
			batch = append(batch, x)
		}
		// what the datastore holds before this life's opens (for the collision clause)
		before := map[datatransfer.ChannelID]Snap{}
		if m, err := nr.A.Mgr.InProgressChannels(ctxBG); err == nil {
			for _, id := range sortedBy(m, chidStr) {
				before[id] = TakeSnap(r, "ids-before", m[id])
			}
		}
		r.S.SetPreemptions(50 + r.Intn(400))
		var calls []*Call
		for _, x := range batch {
			x := x
			calls = append(calls, r.Op("A", fmt.Sprintf("Open#%d", x.idx), func() { nr.openTracked(x, &opens) }))
		}
		allDone := func() bool {
			for _, c := range calls {
				if !c.Task.Done() {
					return false
				}
			}
			return true
		}
		if tight && l < lifetimes-1 {
			// no simulated time passes while the opens run (a coarse clock): the next manager will read (almost) the
			// same clock value and its ids collide with channels that exist
			for i := 0; i < 20000 && !allDone(); i++ {
				simrt.Yield("ids.wait")
			}
			for i := 0; i < 40 && !allDone(); i++ {
				WaitQuiet()
			}
			r.S.SetPreemptions(0)
		} else {
			simrt.Sleep(time.Duration(1+r.Intn(120)) * time.Second)
			r.S.SetPreemptions(0)
			simrt.Sleep(2 * time.Minute)
		}
		if !allDone() {
			return // stuck open: the every-call-returns oracle reports it
		}
		nr.checkIDs(opens, before, l, tight)
		if l == lifetimes-1 {
			break
		}
		// next manager lifetime on the same datastore
		if r.Intn(2) == 0 {
			if !nr.A.stopClean(tight) {
				return // Stop did not return: reported by the every-call-returns oracle
			}
		} else {
			r.Fault("process-crash")
			nr.crashed = true
			nr.A.Crash(len(nr.A.Disk.Log))
			for _, c := range r.Calls {
				if c.Node == "A" && c.Task != nil && !c.Task.Done() {
					c.AllowBlocked = true
				}
			}
		}
		// The wall clock is non-decreasing. Either it does not move at all (gap 0: the next manager reads the very
		// clock value... of this instant, which is far above the previous manager's start) or by a tape-chosen gap.
		gap := []time.Duration{0, time.Nanosecond, time.Microsecond, time.Millisecond, time.Second, time.Hour}[r.Intn(6)]
		if tight {
			gap = 0
		}
		if gap > 0 {
			simrt.Sleep(gap)
		}
		if !nr.A.Start() {
			return
		}
		nr.registerConfigurersOn(nr.A)
	}
	simrt.Sleep(10 * time.Minute)
	nr.A.StopTracked(false)
	nr.B.StopTracked(false)
}

func (nr *netRun) checkIDs(opens []*idOpen, before map[datatransfer.ChannelID]Snap, life int, tight bool) {
	r := nr.r
	seen := map[datatransfer.TransferID]*idOpen{}
	var ok []*idOpen
	for _, o := range opens {
		if !o.x.opened || o.x.openErr != nil {
			continue
		}
		ok = append(ok, o)
		if p := seen[o.x.chid.ID]; p != nil {
			r.Failf("C18", "duplicate-transfer-id", fmt.Sprintf("same-life=%v", p.life == o.life), "opens #%d (manager life %d) and #%d (life %d) both returned transfer id %d", p.x.idx, p.life, o.x.idx, o.life, o.x.chid.ID)
		}
		seen[o.x.chid.ID] = o
	}
	r.Probe("ids-checked")
	if len(ok) >= 2 {
		r.Probe("nontrivial")
	}
	// strictly increasing: an open that began after another had returned gets a larger id (same life, and across
	// lives - the clock never went back)
	sort.SliceStable(ok, func(i, j int) bool { return ok[i].s1 < ok[j].s1 })
	for i, a := range ok {
		for _, b := range ok[i+1:] {
			if tight && a.life != b.life {
				continue // ids of a later manager are only required to be larger when the clock moved on by more than the ids issued
			}
			if b.s0 > a.s1 && b.x.chid.ID <= a.x.chid.ID {
				what := "same-manager"
				if a.life != b.life {
					what = "later-manager"
					r.Probe("ids-across-lifetimes")
				}
				r.Failf("C18", "transfer-id-not-increasing", what, "open #%d returned id %d at step %d; open #%d began at step %d (manager life %d vs %d) and got id %d", a.x.idx, a.x.chid.ID, a.s1, b.x.idx, b.s0, a.life, b.life, b.x.chid.ID)
			}
			if a.life != b.life {
				r.Probe("ids-across-lifetimes")
			}
		}
	}
	// every opened channel is listed under its own id, and channels that existed before this life's opens are
	// exactly as they were unless the transfer itself moved on (identity, vouchers and creation data never change)
	m, err := nr.A.Mgr.InProgressChannels(ctxBG)
	if err != nil {
		return
	}
	for _, o := range ok {
		if o.life != nr.A.life {
			continue
		}
		if _, listed := m[o.x.chid]; !listed {
			r.Failf("C18", "opened-channel-not-listed", "", "open #%d returned channel %v but the manager does not list it", o.x.idx, o.x.chid)
		}
	}
	for _, id := range sortedBy(before, chidStr) {
		pre := before[id]
		st, listed := m[id]
		if !listed {
			r.Failf("C18", "existing-channel-vanished", "", "channel %v existed before the opens of manager life %d and is gone", id, life)
			continue
		}
		now := TakeSnap(r, "ids-after", st)
		if now.BaseCid != pre.BaseCid || now.Selector != pre.Selector || now.Sender != pre.Sender || now.Recipient != pre.Recipient || now.IsPull != pre.IsPull || len(now.Vouchers) < len(pre.Vouchers) || (len(pre.Vouchers) > 0 && now.Vouchers[0] != pre.Vouchers[0]) ||
			len(now.Results) < len(pre.Results) || now.Queued < pre.Queued || now.Sent < pre.Sent || now.Received < pre.Received || now.TotalSize != pre.TotalSize ||
			(isTerminal(pre.Status) && now.Status != pre.Status) {
			r.Failf("C18", "existing-channel-changed-by-later-open", "", "channel %v changed its creation data after the opens of manager life %d: before %s, after %s", id, life, pre, now)
		}
	}
	// failed opens of this life: a local collision must not have disturbed the channel that owns the id
	for _, o := range opens {
		if o.life == nr.A.life && o.x.openErr != nil {
			r.Probe("open-failed")
			if os.Getenv("VERIF_DEBUG_IDS") != "" {
				r.Probe("open-failed:" + panicValNorm.ReplaceAllString(o.x.openErr.Error(), "#"))
			}
			if msg := o.x.openErr.Error(); strings.Contains(msg, "cannot initiate a state for identifier") || strings.Contains(msg, "already tracking identifier") {
				r.Probe("open-refused-because-id-exists")
				// whose id did this open draw? one issued by this very manager (ids not unique under concurrency), or one of
				// an earlier manager (legitimate only when the clock stood still between the two)
				sameLife := false
				for _, p := range ok {
					if p.life == o.life && strings.Contains(msg, "`"+p.x.chid.String()+"`") {
						sameLife = true
					}
				}
				if sameLife {
					r.Failf("C18", "duplicate-transfer-id", "same-manager|second-open-refused", "open #%d drew a transfer id that the same manager (life %d) had already issued: %s", o.x.idx, o.life, msg)
				} else if !tight {
					r.Failf("C18", "transfer-id-not-increasing", "later-manager|open-refused", "open #%d of manager life %d drew the transfer id of a channel of an earlier manager although the clock had moved on: %s", o.x.idx, o.life, msg)
				}
			}
		}
	}
}

func init() {
	Register("C18", Stratum{Name: "net-ids-concurrent-opens-and-successive-managers", Weight: 3, Fn: idsScenario})
}

