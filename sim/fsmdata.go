package sim

// fsmdata: accounting (C07) and data limits (C08) at the channels level.
// Sequential histories are checked against a small reference model; concurrent reporters are
// checked for linearizability with porcupine.

import (
	"context"
	"fmt"
	"sort"
	"time"

	"github.com/anishathalye/porcupine"

	datatransfer "github.com/filecoin-project/go-data-transfer/v2"

	"verif/simrt"
)

type posAttr struct {
	size   uint64
	unique bool
}

// dirModel is the reference for one (channel, direction).
type dirModel struct {
	reported map[int64]bool
	total    uint64 // Σ sizes of unique blocks at distinct reported positions
	maxIdx   int64
}

func newDirModel() *dirModel { return &dirModel{reported: map[int64]bool{}} }

func (m *dirModel) report(idx int64, a posAttr) (advanced bool) {
	if idx > m.maxIdx {
		m.maxIdx = idx
	}
	if m.reported[idx] {
		return false
	}
	m.reported[idx] = true
	if a.unique {
		m.total += a.size
		return true
	}
	return false
}

func dirOf(k opKind) string {
	switch k {
	case opDataQueued:
		return "queued"
	case opDataSent:
		return "sent"
	}
	return "received"
}

func totalsOf(s Snap, dir string) (uint64, int64) {
	switch dir {
	case "queued":
		return s.Queued, s.QIdx
	case "sent":
		return s.Sent, s.SIdx
	}
	return s.Received, s.RIdx
}

// bringToTransferring drives a fresh channel into a transferring status the way its role would.
func (fw *fsmWorld) bringToTransferring(c *fsmChan) bool {
	r := fw.r
	fw.apply(c, opOpen, opArgs{})
	if c.selfIsInitiator() {
		fw.apply(c, opTransferInitiated, opArgs{}) // -> AwaitingAcceptance
		if r.Intn(3) != 0 {
			fw.apply(c, opAccept, opArgs{}) // -> Ongoing
		}
	} else {
		fw.apply(c, opAccept, opArgs{})            // -> Queued
		fw.apply(c, opTransferInitiated, opArgs{}) // -> Ongoing
	}
	s, err := fw.get(c, "GetByID")
	if err != nil || !s.Status.Transferring() {
		r.HarnessErr = fmt.Sprintf("could not bring channel to a transferring status: %v %v", s, err)
		return false
	}
	return true
}

func fsmDataSequential(withReopen bool) func(r *RunCtx) {
	return func(r *RunCtx) {
		fw := newFsmWorld(r)
		if r.HarnessErr != "" {
			return
		}
		role := r.Intn(4)
		c := fw.create(role)
		if c == nil || !fw.bringToTransferring(c) {
			return
		}
		// which directions this role reports
		var kinds []opKind
		limited := opKind(-1)
		switch role {
		case roleInitPush:
			kinds = []opKind{opDataQueued, opDataSent}
		case roleInitPull:
			kinds = []opKind{opDataReceived}
		case roleRespPush:
			kinds = []opKind{opDataReceived}
			limited = opDataReceived
		case roleRespPull:
			kinds = []opKind{opDataQueued, opDataSent}
			limited = opDataQueued
		}
		// fixed attributes per traversal position
		npos := 4 + r.Intn(30)
		attrs := make([]posAttr, npos+1)
		var payload uint64
		for p := 1; p <= npos; p++ {
			attrs[p] = posAttr{size: uint64(1 + r.Intn(400)), unique: r.Intn(5) != 0}
			if attrs[p].unique {
				payload += attrs[p].size
			}
		}
		var limit uint64
		setLimit := func(l uint64) {
			limit = l
			fw.apply(c, opSetDataLimit, opArgs{limit: l})
		}
		if limited >= 0 && r.Intn(4) != 0 {
			// boundary-biased: exactly a prefix sum, one below/above, or arbitrary
			var acc uint64
			cut := 1 + r.Intn(npos)
			for p := 1; p <= cut; p++ {
				if attrs[p].unique {
					acc += attrs[p].size
				}
			}
			switch r.Intn(4) {
			case 0:
				setLimit(acc)
			case 1:
				setLimit(acc + 1)
			case 2:
				if acc > 1 {
					setLimit(acc - 1)
				} else {
					setLimit(1)
				}
			default:
				setLimit(uint64(1 + r.Intn(int(payload+10))))
			}
		}
		models := map[string]*dirModel{"queued": newDirModel(), "sent": newDirModel(), "received": newDirModel()}
		cursor := map[opKind]int64{}
		crossed := false // first crossing of the current limit already seen
		nrep := 10 + r.Intn(50)
		reopens := 0
		flushCheck := func(where string) bool {
			s, err := fw.get(c, "GetByID")
			if err != nil {
				r.HarnessErr = "GetByID failed mid-run: " + err.Error()
				return false
			}
			if !s.Status.Transferring() {
				return true
			}
			for _, d := range []string{"queued", "sent", "received"} {
				m := models[d]
				tot, idx := totalsOf(s, d)
				if tot != m.total {
					what := "over"
					if tot < m.total {
						what = "under"
					}
					r.Failf("C07", "byte-total", d+"|"+what, "%s (%s): %s byte total is %d, reference Σ sizes of unique blocks at the %d distinct reported positions is %d", where, roleNames[c.role], d, tot, len(m.reported), m.total)
					return false
				}
				if idx != m.maxIdx {
					r.Failf("C07", "index-total", d, "%s (%s): %s block-index total is %d, highest position reported is %d", where, roleNames[c.role], d, idx, m.maxIdx)
					return false
				}
			}
			if s.Limit != limit {
				r.Failf("C08", "limit-not-recorded", "DataLimit", "%s: DataLimit() is %d, last limit set is %d", where, s.Limit, limit)
			}
			return true
		}
		for i := 0; i < nrep; i++ {
			k := kinds[r.Intn(len(kinds))]
			// sent never runs ahead of queued for a sender
			cur := cursor[k]
			switch r.Intn(10) {
			case 0: // transport restart: go back to an earlier position and replay
				if cur > 1 {
					cur = int64(r.Intn(int(cur)))
					r.Probe("replay-after-restart")
				}
			}
			if cur >= int64(npos) {
				cur = int64(r.Intn(npos))
			}
			cur++
			cursor[k] = cur
			a := attrs[cur]
			d := dirOf(k)
			m := models[d]
			before := m.total
			err := fw.apply(c, k, opArgs{delta: a.size, index: cur, unique: a.unique})
			advanced := m.report(cur, a)
			paused := err == datatransfer.ErrPause
			if err != nil && !paused {
				r.Failf("C07", "report-error", d, "report %s(idx=%d,size=%d,unique=%v) on a transferring channel returned %v", opNames[k], cur, a.size, a.unique, err)
				break
			}
			if k == limited {
				over := limit > 0 && m.total >= limit
				if paused && !(over && advanced) {
					r.Failf("C08", "pause-without-reaching-limit", d, "report idx=%d size=%d returned the pause signal but limit=%d limited total=%d (advanced=%v)", cur, a.size, limit, m.total, advanced)
				}
				if over && advanced && before < limit && !crossed {
					crossed = true
					r.Probe("limit-crossed")
					if m.total == limit {
						r.Probe("limit-hit-exactly")
					}
					if !paused {
						r.Failf("C08", "no-pause-at-limit", d, "report idx=%d size=%d brought the limited total from %d to %d with limit %d but did not return the pause signal", cur, a.size, before, m.total, limit)
					}
					// DataLimitExceeded announced and responder marked paused
					WaitQuiet() // the notifier may lag the state machine
					s, gerr := fw.get(c, "GetByID")
					if gerr == nil {
						seen := false
						for _, e := range fw.eventsOf(c.chid) {
							if e.code == datatransfer.DataLimitExceeded {
								seen = true
							}
						}
						if !seen || !s.RPaused {
							r.Failf("C08", "limit-not-marked", d, "limit reached (total %d, limit %d) but DataLimitExceeded announced=%v ResponderPaused=%v", m.total, limit, seen, s.RPaused)
						}
					}
				}
			} else if paused {
				r.Failf("C08", "pause-on-unlimited-counter", d, "report %s returned the pause signal although the %s counter is not the limited one (role %s, limit %d)", opNames[k], d, roleNames[c.role], limit)
			}
			switch r.Intn(7) {
			case 0:
				if !flushCheck(fmt.Sprintf("after report %d", i)) {
					return
				}
			case 1:
				if withReopen && reopens < 3 {
					reopens++
					if !flushCheck("before restart") {
						return
					}
					r.Fault("clean-restart")
					fw.reopen(-1, true)
					if r.HarnessErr != "" || c.lost {
						return
					}
					if !flushCheck("after restart") {
						return
					}
				}
			case 2:
				if limited >= 0 && r.Intn(2) == 0 {
					// raise / lift / lower the limit (validation update)
					cur := models[dirOf(limited)].total
					switch r.Intn(4) {
					case 0:
						setLimit(0)
					case 1:
						setLimit(cur) // not above progress: the very next advancing report pauses
					case 2:
						setLimit(cur + 1)
					default:
						setLimit(cur + uint64(1+r.Intn(600)))
					}
					crossed = false
					r.Probe("limit-changed")
				}
			}
		}
		simrt.Sleep(time.Millisecond)
		flushCheck("end of run")
		fw.historyOracles(true)
		r.Probe("nontrivial")
		r.Sample["role"] = roleNames[role]
		r.Sample["positions"] = npos
		r.Sample["reports"] = nrep
		r.Sample["limit_at_end"] = limit
		r.Sample["payload"] = payload
		_ = fw.cs.Stop(context.Background())
	}
}

// ---------------------------------------------------------------- concurrent reporters + porcupine

type repIn struct {
	idx  int64
	size uint64
}
type repOut struct {
	advanced bool
	paused   bool
}
type repState struct {
	hw    int64
	total uint64
}

func reportModel(limit uint64, checkPause bool) porcupine.Model {
	return porcupine.Model{
		Init: func() interface{} { return repState{} },
		Step: func(state, input, output interface{}) (bool, interface{}) {
			st := state.(repState)
			in := input.(repIn)
			out := output.(repOut)
			adv := in.idx > st.hw
			if adv != out.advanced {
				return false, st
			}
			if adv {
				st.hw = in.idx
				st.total += in.size
			}
			if checkPause {
				want := adv && limit > 0 && st.total >= limit
				if want != out.paused {
					return false, st
				}
			}
			return true, st
		},
		Equal: func(a, b interface{}) bool { return a.(repState) == b.(repState) },
		DescribeOperation: func(input, output interface{}) string {
			return fmt.Sprintf("report(idx=%d,size=%d) -> advanced=%v paused=%v", input.(repIn).idx, input.(repIn).size, output.(repOut).advanced, output.(repOut).paused)
		},
	}
}

// pauseModel: the byte accounting of the reports that advanced. The library updates the block-index high-water mark
// and the byte total in two separate atomic steps, so the order in which concurrent reports are *accounted* need not
// be the order in which they advanced the index; neither C07 nor C08 asks for that. What C08 asks is that - in the
// accounting order, which must respect real time - exactly the reports that leave the total at or past the limit
// return the pause signal.
func pauseModel(limit uint64) porcupine.Model {
	return porcupine.Model{
		Init: func() interface{} { return uint64(0) },
		Step: func(state, input, output interface{}) (bool, interface{}) {
			tot := state.(uint64) + input.(repIn).size
			want := limit > 0 && tot >= limit
			return want == output.(repOut).paused, tot
		},
		Equal: func(a, b interface{}) bool { return a.(uint64) == b.(uint64) },
		DescribeOperation: func(input, output interface{}) string {
			return fmt.Sprintf("account(size=%d) -> paused=%v", input.(repIn).size, output.(repOut).paused)
		},
	}
}

func fsmDataConcurrent(r *RunCtx) {
	fw := newFsmWorld(r)
	if r.HarnessErr != "" {
		return
	}
	role := []int{roleRespPull, roleRespPush, roleInitPull, roleInitPush}[r.Intn(4)]
	c := fw.create(role)
	if c == nil || !fw.bringToTransferring(c) {
		return
	}
	k := opDataReceived
	if role == roleRespPull || role == roleInitPush {
		k = []opKind{opDataQueued, opDataSent}[r.Intn(2)]
	}
	limitedDir := (role == roleRespPull && k == opDataQueued) || (role == roleRespPush && k == opDataReceived)
	var limit uint64
	if limitedDir && r.Intn(3) != 0 {
		limit = uint64(200 + r.Intn(1500))
		fw.apply(c, opSetDataLimit, opArgs{limit: limit})
	}
	WaitQuiet()
	nTasks := 2 + r.Intn(3)
	r.S.PreMaxGap = []int{30, 100, 300, 1000}[r.Intn(4)]
	r.S.SetPreemptions(r.Intn(60))
	type rec struct {
		in        repIn
		call, ret int
		err       error
		client    int
	}
	var recs []*rec
	sizeSeq := uint64(0)
	var calls []*Call
	for t := 0; t < nTasks; t++ {
		t := t
		n := 2 + r.Intn(5)
		ins := make([]repIn, n)
		pos := int64(r.Intn(3))
		for i := range ins {
			pos += int64(r.Intn(3)) // equal positions across tasks are likely
			if pos == 0 {
				pos = 1
			}
			sizeSeq++
			ins[i] = repIn{idx: pos, size: 1000*sizeSeq + uint64(r.Intn(999)) + 1} // unique sizes: progress events are attributable
		}
		calls = append(calls, r.Op("A", fmt.Sprintf("reporter#%d", t), func() {
			for _, in := range ins {
				rc := &rec{in: in, client: t, call: r.S.Steps}
				recs = append(recs, rc)
				var err error
				switch k {
				case opDataQueued:
					err = fw.cs.DataQueued(c.chid, fixedCid, in.size, in.idx, true)
				case opDataSent:
					err = fw.cs.DataSent(c.chid, fixedCid, in.size, in.idx, true)
				default:
					err = fw.cs.DataReceived(c.chid, fixedCid, in.size, in.idx, true)
				}
				rc.err = err
				rc.ret = r.S.Steps
				simrt.Yield("reporter")
			}
		}))
	}
	simrt.Sleep(time.Second)
	for _, cl := range calls {
		if !cl.Task.Done() {
			return // generic stuck-call oracle reports it
		}
	}
	s, err := fw.get(c, "GetByID")
	if err != nil {
		r.HarnessErr = "GetByID: " + err.Error()
		return
	}
	// which reports advanced: a progress event with the report's (unique) size was announced
	progCode := map[opKind]datatransfer.EventCode{opDataQueued: datatransfer.DataQueuedProgress, opDataSent: datatransfer.DataSentProgress, opDataReceived: datatransfer.DataReceivedProgress}[k]
	evs := fw.eventsOf(c.chid)
	deltas := map[uint64]int{}
	var prevTot uint64
	for _, e := range evs {
		tot, _ := totalsOf(e.snap, dirOf(k))
		if e.code == progCode {
			deltas[tot-prevTot]++
		}
		prevTot = tot
	}
	var ops []porcupine.Operation
	var sumAdv uint64
	var maxIdx int64
	for _, rc := range recs {
		n := deltas[rc.in.size]
		if n > 1 {
			r.Failf("C07", "position-counted-twice", dirOf(k), "report idx=%d size=%d was counted %d times", rc.in.idx, rc.in.size, n)
		}
		if rc.err != nil && rc.err != datatransfer.ErrPause {
			r.Failf("C07", "report-error", dirOf(k), "concurrent report idx=%d returned %v", rc.in.idx, rc.err)
			return
		}
		if n > 0 {
			sumAdv += rc.in.size
		}
		if rc.in.idx > maxIdx {
			maxIdx = rc.in.idx
		}
		ops = append(ops, porcupine.Operation{ClientId: rc.client, Input: rc.in, Call: int64(rc.call), Output: repOut{advanced: n > 0, paused: rc.err == datatransfer.ErrPause}, Return: int64(rc.ret) + 1})
	}
	tot, idx := totalsOf(s, dirOf(k))
	if tot != sumAdv {
		r.Failf("C07", "total-not-sum-of-advancing", dirOf(k), "%s total is %d but the reports that advanced sum to %d", dirOf(k), tot, sumAdv)
	}
	if idx != maxIdx {
		r.Failf("C07", "index-total", dirOf(k)+"|concurrent", "%s block-index total is %d, highest position reported is %d", dirOf(k), idx, maxIdx)
	}
	sort.Slice(ops, func(i, j int) bool { return ops[i].Call < ops[j].Call })
	describe := func() []string {
		var desc []string
		for _, o := range ops {
			desc = append(desc, fmt.Sprintf("c%d[%d,%d] idx=%d size=%d adv=%v paused=%v", o.ClientId, o.Call, o.Return, o.Input.(repIn).idx, o.Input.(repIn).size, o.Output.(repOut).advanced, o.Output.(repOut).paused))
		}
		return desc
	}
	// C07: which reports advanced (high-water-mark model)
	res, _ := porcupine.CheckOperationsVerbose(reportModel(limit, false), ops, 20*time.Second)
	switch res {
	case porcupine.Illegal:
		r.Failf("C07", "not-linearizable", dirOf(k)+"|advancing set", "concurrent report history (limit %d) has no linearization against the sequential model (advancing set): %v", limit, describe())
	case porcupine.Unknown:
		r.Probe("porcupine-unknown")
	default:
		r.Probe("porcupine-ok")
	}
	// C08: pause signals over the accounting order of the reports that advanced; a report that did not advance is not
	// accounted and never pauses
	if limitedDir {
		var adv []porcupine.Operation
		for _, o := range ops {
			out := o.Output.(repOut)
			if out.advanced {
				adv = append(adv, o)
			} else if out.paused {
				r.Failf("C08", "pause-without-progress", dirOf(k), "a report that did not advance the %s index returned the pause signal: %v", dirOf(k), describe())
			}
		}
		switch r2, _ := porcupine.CheckOperationsVerbose(pauseModel(limit), adv, 20*time.Second); r2 {
		case porcupine.Illegal:
			r.Failf("C08", "not-linearizable", dirOf(k)+"|pause signals", "concurrent report history (limit %d): no accounting order of the advancing reports, consistent with real time, explains the pause signals: %v", limit, describe())
		case porcupine.Unknown:
			r.Probe("porcupine-unknown")
		default:
			r.Probe("porcupine-pause-ok")
		}
	}
	if len(ops) >= 4 {
		r.Probe("nontrivial")
	}
	same := map[int64]int{}
	for _, rc := range recs {
		same[rc.in.idx]++
	}
	for _, n := range same {
		if n > 1 {
			r.Probe("same-position-concurrently")
			break
		}
	}
	r.Sample["role"] = roleNames[role]
	r.Sample["reporters"] = nTasks
	r.Sample["reports"] = len(ops)
	r.Sample["limit"] = limit
	r.Sample["porcupine"] = fmt.Sprint(res)
	r.Sample["preemption_points_passed"] = r.S.PCount()
	_ = fw.cs.Stop(context.Background())
}

func init() {
	seq := func(name string, w int, reopen bool) Stratum {
		return Stratum{Name: name, Weight: w, Fn: fsmDataSequential(reopen), MaxSteps: 300_000, Horizon: time.Hour}
	}
	conc := Stratum{Name: "fsm-concurrent-reporters-porcupine", Weight: 3, Fn: fsmDataConcurrent, MaxSteps: 200_000, Horizon: time.Hour}
	Register("C07", seq("fsm-data-sequential", 3, false), seq("fsm-data-sequential-restart", 3, true), conc)
	Register("C08", seq("fsm-data-sequential", 3, false), seq("fsm-data-sequential-restart", 3, true), conc)
}
