// Package simrt is the runtime that transformed code calls at every
// synchronisation point. When no simulation is active every call degrades to
// the plain Go primitive, so transformed code behaves like the original.
//
// Under simulation (Run, inside a testing/synctest bubble) exactly one task
// holds the "baton" at any time; the driver picks the next task from the
// choice tape after synctest.Wait() has established that every goroutine is
// parked or durably blocked. One tape == one exactly repeatable execution.
package simrt

import (
	"os"
	"bytes"
	"fmt"
	"hash/fnv"
	"reflect"
	"runtime"
	"runtime/debug"
	"sort"
	"strconv"
	"strings"
	"sync"
	"sync/atomic"
	"testing/synctest"
	"time"
)

// ---------------------------------------------------------------- tape (sole source of choices)

// Tape is the single source of every choice of a run. In record mode it is a
// splitmix64 stream; in replay mode it plays back a recorded prefix and then
// yields zeros (every choice is encoded so that 0 is the simplest option).
type Tape struct {
	state  uint64
	fixed  []uint32
	replay bool
	Log    []uint32
}

func NewTape(seed uint64) *Tape { return &Tape{state: seed*0x9E3779B97F4A7C15 + 0x1234567} }
func ReplayTape(fixed []uint32) *Tape {
	return &Tape{fixed: fixed, replay: true}
}
func (t *Tape) next() uint32 {
	if t.replay {
		i := len(t.Log)
		var v uint32
		if i < len(t.fixed) {
			v = t.fixed[i]
		}
		t.Log = append(t.Log, v)
		return v
	}
	t.state += 0x9E3779B97F4A7C15
	z := t.state
	z = (z ^ (z >> 30)) * 0xBF58476D1CE4E5B9
	z = (z ^ (z >> 27)) * 0x94D049BB133111EB
	z ^= z >> 31
	v := uint32(z >> 32)
	t.Log = append(t.Log, v)
	return v
}

// Intn draws a choice in [0,n). n<=1 consumes nothing.
func (t *Tape) Intn(n int) int {
	if n <= 1 {
		return 0
	}
	v := int(t.next() % uint32(n))
	if TapeTrace != nil {
		pc := make([]uintptr, 6)
		k := runtime.Callers(2, pc)
		fr := runtime.CallersFrames(pc[:k])
		w := ""
		for i := 0; i < 4; i++ {
			f, more := fr.Next()
			w += " <" + f.Function
			if !more {
				break
			}
		}
		TapeTrace(fmt.Sprintf("tape n=%d v=%d%s", n, v, w))
	}
	return v
}

// DebugP makes every preemption point verify that its goroutine holds the baton (slow).
var DebugP = os.Getenv("VERIF_DEBUG_P") != ""

// PLogFrom..PLogTo: scheduling steps during which every preemption point is logged into the trace (debugging aid).
var PLogFrom, PLogTo = func() (int, int) {
	var a, b int
	fmt.Sscanf(os.Getenv("VERIF_DEBUG_PLOG"), "%d-%d", &a, &b)
	return a, b
}()

// TapeTrace, when set, sees every draw (debugging aid for determinism hunts).
var TapeTrace func(string)

// ---------------------------------------------------------------- sim core

const (
	stRunning = iota
	stReady
	stBlocked
	stDone
)

type Task struct {
	ID      string
	Name    string // set for tasks the harness wants to track (application calls)
	Label   string // inherited by children; used for node attribution
	goid    int64
	wake    chan struct{}
	nchild  int
	state   int
	blockOn string
	WaitsOn any // *Mutex or *RWMutex the task is blocked on (nil otherwise)
	notBefore int // scheduling step before which the task is not eligible (spawn delay; 0 = none)
	Start   int // step at which the task first ran
	End     int // step at which it finished (0 = not finished)
}

func (t *Task) Done() bool { return t.state == stDone }

// PanicRecord describes a panic that escaped a task.
type PanicRecord struct {
	Task  string
	Name  string
	Value string
	Stack string
}

type Sim struct {
	mu     sync.Mutex
	tasks  map[int64]*Task
	ready  []*Task
	all    []*Task
	kick   chan struct{}
	Tape   *Tape
	Steps  int
	anon   int
	holder *Task

	TraceOn bool
	Trace   []string
	schedH  uint64 // running hash of (task id, reason)

	Panics  []PanicRecord
	aborted atomic.Bool

	// preemption (PCT-like): the next P() index at which to yield; 0 = none left
	pcount    int
	nextPre   int
	preLeft   int
	PreMaxGap int
	PreHits   int // preemption points that fired in this run
	PreNoStop bool // a zero gap draw does not end the preemptions of this run (dense preemption strata)
	// SpawnDelayDen (>0): every goroutine the *library* starts is, with probability 1/SpawnDelayDen, not eligible to run
	// for 1..SpawnDelayMax scheduling steps (a goroutine that the OS scheduler leaves waiting while others make
	// progress - uniform picking alone starves a given task for k steps only with probability ~(1-1/n)^k)
	SpawnDelayDen, SpawnDelayMax int
	quiet     atomic.Int32

	// Stalled, when non-nil, reports whether tasks with the given label are currently withheld
	// from scheduling (node stall fault). Must be deterministic.
	Stalled func(label string) bool

	HorizonHit bool
}

var cur atomic.Pointer[Sim]

func Active() bool { return cur.Load() != nil }

// Current returns the running simulation or nil.
func Current() *Sim { return cur.Load() }

func goid() int64 {
	var buf [64]byte
	n := runtime.Stack(buf[:], false)
	b := buf[len("goroutine "):n]
	i := bytes.IndexByte(b, ' ')
	id, _ := strconv.ParseInt(string(b[:i]), 10, 64)
	return id
}

func (s *Sim) current() *Task {
	g := goid()
	s.mu.Lock()
	defer s.mu.Unlock()
	t := s.tasks[g]
	if t == nil {
		s.anon++
		t = &Task{ID: fmt.Sprintf("anon%d", s.anon), goid: g, wake: make(chan struct{})}
		s.tasks[g] = t
		s.all = append(s.all, t)
	}
	return t
}

// CurrentTask returns the calling task.
func (s *Sim) CurrentTask() *Task { return s.current() }

func (s *Sim) tracef(f string, a ...any) {
	if !s.TraceOn {
		return
	}
	s.mu.Lock()
	s.Trace = append(s.Trace, fmt.Sprintf(f, a...))
	s.mu.Unlock()
}

// park: become ready and wait for the driver to hand over the baton.
func (s *Sim) park(t *Task, why string) {
	s.mu.Lock()
	t.state = stReady
	t.blockOn = why
	s.ready = append(s.ready, t)
	s.mu.Unlock()
	select {
	case s.kick <- struct{}{}:
	default:
	}
	<-t.wake
}

// Abort stops the run at the next scheduling decision.
func (s *Sim) Abort() { s.aborted.Store(true) }
func (s *Sim) Aborted() bool { return s.aborted.Load() }

// Run executes root as task "0" under the deterministic scheduler; must be called inside a synctest bubble.
func Run(tape *Tape, maxSteps int, horizon time.Duration, root func(s *Sim)) *Sim {
	s := &Sim{tasks: map[int64]*Task{}, kick: make(chan struct{}, 1), Tape: tape, schedH: 14695981039346656037, PreMaxGap: 4000}
	if !cur.CompareAndSwap(nil, s) {
		panic("simrt: nested Run")
	}
	defer cur.Store(nil)
	done := make(chan struct{})
	rt := &Task{ID: "0", wake: make(chan struct{})}
	s.all = append(s.all, rt)
	go func() {
		g := goid()
		s.mu.Lock()
		rt.goid = g
		s.tasks[g] = rt
		s.mu.Unlock()
		s.park(rt, "start")
		defer close(done)
		defer s.exit(rt)
		defer s.recoverTask(rt)
		root(s)
	}()
	var elig []*Task
	for s.Steps = 0; s.Steps < maxSteps; s.Steps++ {
		synctest.Wait()
		if s.aborted.Load() {
			return s
		}
		s.mu.Lock()
		sort.Slice(s.ready, func(i, j int) bool { return s.ready[i].ID < s.ready[j].ID })
		elig = elig[:0]
		for _, t := range s.ready {
			if s.SpawnDelayDen > 0 && t.notBefore > s.Steps {
				continue // a delayed spawn waits its turn
			}
			if s.Stalled != nil && t.Label != "" && s.Stalled(t.Label) {
				continue
			}
			elig = append(elig, t)
		}
		if len(elig) == 0 {
			// never stall everything: first let stalled nodes run, then delayed spawns
			for _, t := range s.ready {
				if !(s.SpawnDelayDen > 0 && t.notBefore > s.Steps) {
					elig = append(elig, t)
				}
			}
		}
		if len(elig) == 0 {
			elig = append(elig, s.ready...)
		}
		n := len(elig)
		s.mu.Unlock()
		if n == 0 {
			select {
			case <-done:
				return s
			default:
			}
			// nothing runnable: let simulated time advance to the next timer
			select {
			case <-s.kick:
				continue
			case <-done:
				return s
			case <-time.After(horizon):
				s.HorizonHit = true
				return s
			}
		}
		k := s.Tape.Intn(n)
		s.mu.Lock()
		t := elig[k]
		for i, r := range s.ready {
			if r == t {
				s.ready = append(s.ready[:i], s.ready[i+1:]...)
				break
			}
		}
		t.state = stRunning
		if t.Start == 0 {
			t.Start = s.Steps + 1
		}
		s.holder = t
		s.hashStep(t.ID, t.blockOn)
		if s.TraceOn {
			ids := ""
			if os.Getenv("VERIF_TRACE_READY") != "" {
				for _, e := range elig {
					ids += " " + e.ID
				}
				ids = fmt.Sprintf(" pc=%d", s.pcount)
			}
			s.Trace = append(s.Trace, "run "+t.ID+" after "+t.blockOn+ids)
		}
		s.mu.Unlock()
		t.wake <- struct{}{}
	}
	return s
}

func (s *Sim) hashStep(id, why string) {
	h := s.schedH
	for i := 0; i < len(id); i++ {
		h = (h ^ uint64(id[i])) * 1099511628211
	}
	h = (h ^ 0xff) * 1099511628211
	for i := 0; i < len(why); i++ {
		h = (h ^ uint64(why[i])) * 1099511628211
	}
	s.schedH = h
}

// Mix folds an environment action into the schedule hash (deterministic).
func (s *Sim) Mix(what string) {
	s.mu.Lock()
	s.hashStep("env", what)
	s.mu.Unlock()
}

// ScheduleHash identifies the interleaving of this run.
func (s *Sim) ScheduleHash() uint64 { return s.schedH }

func (s *Sim) exit(t *Task) {
	s.mu.Lock()
	t.state = stDone
	t.End = s.Steps + 1
	s.mu.Unlock()
}

func (s *Sim) recoverTask(t *Task) {
	if r := recover(); r != nil {
		st := string(debug.Stack())
		s.mu.Lock()
		s.Panics = append(s.Panics, PanicRecord{Task: t.ID, Name: t.Name, Value: fmt.Sprint(r), Stack: st})
		s.mu.Unlock()
		s.aborted.Store(true)
	}
}

// Tasks returns a snapshot of all tasks created so far.
func (s *Sim) Tasks() []*Task {
	s.mu.Lock()
	defer s.mu.Unlock()
	return append([]*Task(nil), s.all...)
}

// StacksOf returns the goroutine stack of each listed task that is still alive (harness use, on failure only).
func (s *Sim) StacksOf(ts []*Task) map[string]string {
	buf := make([]byte, 1<<22)
	n := runtime.Stack(buf, true)
	out := map[string]string{}
	want := map[int64]*Task{}
	for _, t := range ts {
		want[t.goid] = t
	}
	for _, blk := range strings.Split(string(buf[:n]), "\n\n") {
		if !strings.HasPrefix(blk, "goroutine ") {
			continue
		}
		rest := blk[len("goroutine "):]
		i := strings.IndexByte(rest, ' ')
		if i < 0 {
			continue
		}
		id, err := strconv.ParseInt(rest[:i], 10, 64)
		if err != nil {
			continue
		}
		if t := want[id]; t != nil {
			out[t.ID] = blk
		}
	}
	return out
}

// ---------------------------------------------------------------- API for transformed code

func (s *Sim) newChild(p *Task) *Task {
	s.mu.Lock()
	p.nchild++
	c := &Task{ID: p.ID + "." + strconv.Itoa(p.nchild), Label: p.Label, wake: make(chan struct{})}
	s.all = append(s.all, c)
	s.mu.Unlock()
	return c
}

func (s *Sim) bind(c *Task) {
	g := goid()
	s.mu.Lock()
	c.goid = g
	s.tasks[g] = c
	s.mu.Unlock()
}

// Go replaces the go statement.
func Go(f func()) {
	s := cur.Load()
	if s == nil {
		go f()
		return
	}
	c := s.newChild(s.current())
	if s.SpawnDelayDen > 0 && s.Tape.Intn(s.SpawnDelayDen) == 0 {
		c.notBefore = s.Steps + 1 + s.Tape.Intn(s.SpawnDelayMax)
	}
	go func() {
		s.bind(c)
		s.park(c, "spawn")
		defer s.exit(c)
		defer s.recoverTask(c)
		f()
	}()
}

// GoNamed starts a tracked task (harness use): name and label are recorded on the task.
func GoNamed(name, label string, f func()) *Task {
	s := cur.Load()
	if s == nil {
		go f()
		return nil
	}
	c := s.newChild(s.current())
	c.Name = name
	if label != "" {
		c.Label = label
	}
	go func() {
		s.bind(c)
		s.park(c, "spawn")
		defer s.exit(c)
		defer s.recoverTask(c)
		f()
	}()
	return c
}

// SetLabel sets the calling task's label (inherited by tasks it spawns afterwards).
func SetLabel(l string) {
	if s := cur.Load(); s != nil {
		t := s.current()
		s.mu.Lock()
		t.Label = l
		s.mu.Unlock()
	}
}

// Spawned wraps a callback that some untransformed code will run on a new goroutine (time.AfterFunc, errgroup).
func Spawned(f func()) func() {
	s := cur.Load()
	if s == nil {
		return f
	}
	c := s.newChild(s.current())
	return func() {
		s.bind(c)
		s.park(c, "spawned")
		defer s.exit(c)
		defer s.recoverTask(c)
		f()
	}
}

func SpawnedErr(f func() error) func() error {
	var err error
	g := Spawned(func() { err = f() })
	return func() error { g(); return err }
}

// Yield is an unconditional scheduling point.
func Yield(why string) {
	if s := cur.Load(); s != nil {
		s.park(s.current(), why)
	}
}

// SetPreemptions arms n preemption points for this run (gaps drawn from the tape; a zero draw ends them).
func (s *Sim) SetPreemptions(n int) {
	s.mu.Lock()
	s.preLeft = n
	s.armLocked()
	s.mu.Unlock()
}

func (s *Sim) armLocked() {
	s.nextPre = 0
	if s.preLeft <= 0 {
		return
	}
	g := s.Tape.Intn(s.PreMaxGap)
	if g == 0 {
		if !s.PreNoStop {
			s.preLeft = 0
			return
		}
		g = s.PreMaxGap // dense mode: a zero draw is the longest gap, not the end
	}
	s.preLeft--
	s.nextPre = s.pcount + g
}

// Quiet runs f (harness code that calls into transformed library code merely to observe: decoding a message for a
// log line, reading accessors of a state) with preemption points switched off, so that observation never perturbs
// the schedule. Only the baton holder runs, so a plain counter suffices.
func Quiet(f func()) {
	s := cur.Load()
	if s == nil {
		f()
		return
	}
	s.quiet.Add(1)
	defer s.quiet.Add(-1)
	f()
}

// P is a potential preemption point inserted before statements.
func P() {
	s := cur.Load()
	if s == nil || s.quiet.Load() > 0 {
		return
	}
	if DebugP {
		g := goid()
		s.mu.Lock()
		t := s.tasks[g]
		h := s.holder
		s.mu.Unlock()
		if t != h {
			buf := make([]byte, 4096)
			n := runtime.Stack(buf, false)
			hid := "<nil>"
			if h != nil {
				hid = h.ID
			}
			tid := "<unknown>"
			if t != nil {
				tid = t.ID + " state=" + strconv.Itoa(t.state) + " on=" + t.blockOn
			}
			fmt.Fprintf(os.Stderr, "P() OUTSIDE BATON: task %s holder %s\n%s\n", tid, hid, buf[:n])
		}
	}
	if PLogFrom > 0 && s.Steps >= PLogFrom && s.Steps <= PLogTo {
		_, file, line, _ := runtime.Caller(1)
		s.mu.Lock()
		s.Trace = append(s.Trace, fmt.Sprintf("P step=%d %s:%d", s.Steps, file, line))
		s.mu.Unlock()
	}
	s.mu.Lock()
	s.pcount++
	hit := s.nextPre != 0 && s.pcount >= s.nextPre
	if hit {
		s.PreHits++
		s.armLocked()
	}
	s.mu.Unlock()
	if hit {
		s.park(s.current(), "preempt")
	}
}

// PCount returns the number of preemption points passed so far.
func (s *Sim) PCount() int { s.mu.Lock(); defer s.mu.Unlock(); return s.pcount }

// BeforeBlock / AfterBlock bracket a native blocking operation.
func BeforeBlock() {
	if s := cur.Load(); s != nil {
		t := s.current()
		s.mu.Lock()
		t.state = stBlocked
		t.blockOn = "native"
		s.mu.Unlock()
	}
}
func AfterBlock() {
	if s := cur.Load(); s != nil {
		s.park(s.current(), "unblock")
	}
}

func Blocking(f func()) { BeforeBlock(); f(); AfterBlock() }
func BlockingErr(f func() error) error {
	BeforeBlock()
	err := f()
	AfterBlock()
	return err
}

// Sleep sleeps in simulated time (harness use).
func Sleep(d time.Duration) { Blocking(func() { time.Sleep(d) }) }

func Recv[T any](c <-chan T) T {
	BeforeBlock()
	v := <-c
	AfterBlock()
	return v
}
func Recv2[T any](c <-chan T) (T, bool) {
	BeforeBlock()
	v, ok := <-c
	AfterBlock()
	return v, ok
}

// ---------------------------------------------------------------- select

type Case struct {
	send bool
	ch   reflect.Value
	val  reflect.Value
	Rv   reflect.Value
	Ok   bool
}

func R(ch any) Case { return Case{ch: reflect.ValueOf(ch)} }
func S(ch any, v any) Case {
	c := reflect.ValueOf(ch)
	var rv reflect.Value
	if v == nil {
		rv = reflect.Zero(c.Type().Elem())
	} else {
		rv = reflect.ValueOf(v)
		if rv.Type() != c.Type().Elem() && rv.Type().ConvertibleTo(c.Type().Elem()) && c.Type().Elem().Kind() != reflect.Interface {
			rv = rv.Convert(c.Type().Elem())
		}
	}
	return Case{send: true, ch: c, val: rv}
}

func Val[T any](_ <-chan T, c *Case) T {
	var zero T
	if !c.Rv.IsValid() {
		return zero
	}
	v, _ := c.Rv.Interface().(T)
	return v
}

// Select returns the index of the chosen case, or -1 for default.
func Select(cs []Case, hasDefault bool) int {
	s := cur.Load()
	n := len(cs)
	if s != nil {
		Yield("select")
		// deterministic probe in tape-rotated order
		start := 0
		if n > 1 {
			s.mu.Lock()
			start = s.Tape.Intn(n)
			s.mu.Unlock()
		}
		for i := 0; i < n; i++ {
			k := (start + i) % n
			c := &cs[k]
			if !c.ch.IsValid() || c.ch.IsNil() {
				continue
			}
			if c.send {
				if c.ch.TrySend(c.val) {
					return k
				}
			} else {
				// TryRecv: (zero Value, false) = would block; (valid zero, false) = closed
				if v, ok := c.ch.TryRecv(); ok || v.IsValid() {
					c.Rv, c.Ok = v, ok
					return k
				}
			}
		}
		if hasDefault {
			return -1
		}
	}
	rc := make([]reflect.SelectCase, 0, n+1)
	for i := range cs {
		if cs[i].send {
			rc = append(rc, reflect.SelectCase{Dir: reflect.SelectSend, Chan: cs[i].ch, Send: cs[i].val})
		} else {
			rc = append(rc, reflect.SelectCase{Dir: reflect.SelectRecv, Chan: cs[i].ch})
		}
	}
	if hasDefault {
		rc = append(rc, reflect.SelectCase{Dir: reflect.SelectDefault})
	}
	BeforeBlock()
	k, v, ok := reflect.Select(rc)
	AfterBlock()
	if k == n {
		return -1
	}
	if !cs[k].send {
		cs[k].Rv, cs[k].Ok = v, ok
	}
	return k
}

// ---------------------------------------------------------------- locks

type Mutex struct {
	real    sync.Mutex
	held    bool
	Holder  *Task
	waiters []*Task
}

func (m *Mutex) Lock() {
	s := cur.Load()
	if s == nil {
		m.real.Lock()
		return
	}
	t := s.current()
	s.park(t, "lock")
	for {
		s.mu.Lock()
		if !m.held {
			m.held = true
			m.Holder = t
			s.mu.Unlock()
			return
		}
		m.waiters = append(m.waiters, t)
		t.state = stBlocked
		t.blockOn = "mutex"
		t.WaitsOn = m
		s.mu.Unlock()
		<-t.wake // released by Unlock→ready→driver
		t.WaitsOn = nil
	}
}
func (m *Mutex) TryLock() bool {
	s := cur.Load()
	if s == nil {
		return m.real.TryLock()
	}
	s.mu.Lock()
	defer s.mu.Unlock()
	if m.held {
		return false
	}
	m.held = true
	return true
}
func (m *Mutex) Unlock() {
	s := cur.Load()
	if s == nil {
		m.real.Unlock()
		return
	}
	s.mu.Lock()
	if !m.held {
		s.mu.Unlock()
		panic("sync: unlock of unlocked mutex")
	}
	m.held = false
	m.Holder = nil
	for _, w := range m.waiters {
		w.state = stReady
		w.blockOn = "lock-retry"
		s.ready = append(s.ready, w)
	}
	m.waiters = nil
	s.mu.Unlock()
}

type RWMutex struct {
	real    sync.RWMutex
	Holder  *Task   // writer, if any
	RHolders []*Task // current readers
	writer  bool
	readers int
	waiters []*Task
}

func (m *RWMutex) acquire(write bool) {
	s := cur.Load()
	t := s.current()
	s.park(t, "rwlock")
	for {
		s.mu.Lock()
		if write && !m.writer && m.readers == 0 {
			m.writer = true
			m.Holder = t
			s.mu.Unlock()
			return
		}
		if !write && !m.writer {
			m.readers++
			m.RHolders = append(m.RHolders, t)
			s.mu.Unlock()
			return
		}
		m.waiters = append(m.waiters, t)
		t.state = stBlocked
		t.blockOn = "rwmutex"
		t.WaitsOn = m
		s.mu.Unlock()
		<-t.wake
		t.WaitsOn = nil
	}
}
func (m *RWMutex) release(write bool) {
	s := cur.Load()
	s.mu.Lock()
	if write {
		if !m.writer {
			s.mu.Unlock()
			panic("sync: Unlock of unlocked RWMutex")
		}
		m.writer = false
		m.Holder = nil
	} else {
		if m.readers <= 0 {
			s.mu.Unlock()
			panic("sync: RUnlock of unlocked RWMutex")
		}
		m.readers--
		t := s.tasks[goid()]
		for i, h := range m.RHolders {
			if h == t {
				m.RHolders = append(m.RHolders[:i], m.RHolders[i+1:]...)
				break
			}
		}
	}
	for _, w := range m.waiters {
		w.state = stReady
		w.blockOn = "rwlock-retry"
		s.ready = append(s.ready, w)
	}
	m.waiters = nil
	s.mu.Unlock()
}
func (m *RWMutex) Lock() {
	if !Active() {
		m.real.Lock()
		return
	}
	m.acquire(true)
}
func (m *RWMutex) Unlock() {
	if !Active() {
		m.real.Unlock()
		return
	}
	m.release(true)
}
func (m *RWMutex) RLock() {
	if !Active() {
		m.real.RLock()
		return
	}
	m.acquire(false)
}
func (m *RWMutex) RUnlock() {
	if !Active() {
		m.real.RUnlock()
		return
	}
	m.release(false)
}

type Once struct {
	real sync.Once
	m    Mutex
	done bool
}

func (o *Once) Do(f func()) {
	if !Active() {
		o.real.Do(f)
		return
	}
	o.m.Lock()
	defer o.m.Unlock()
	if !o.done {
		defer func() { o.done = true }()
		f()
	}
}

type WaitGroup struct {
	real    sync.WaitGroup
	n       int
	waiters []*Task
}

func (w *WaitGroup) Add(d int) {
	s := cur.Load()
	if s == nil {
		w.real.Add(d)
		return
	}
	s.mu.Lock()
	w.n += d
	if w.n < 0 {
		s.mu.Unlock()
		panic("sync: negative WaitGroup counter")
	}
	if w.n == 0 {
		for _, t := range w.waiters {
			t.state = stReady
			t.blockOn = "wg"
			s.ready = append(s.ready, t)
		}
		w.waiters = nil
	}
	s.mu.Unlock()
}
func (w *WaitGroup) Done() { w.Add(-1) }
func (w *WaitGroup) Wait() {
	s := cur.Load()
	if s == nil {
		w.real.Wait()
		return
	}
	t := s.current()
	s.park(t, "wg-wait")
	s.mu.Lock()
	if w.n == 0 {
		s.mu.Unlock()
		return
	}
	w.waiters = append(w.waiters, t)
	t.state = stBlocked
	t.blockOn = "waitgroup"
	s.mu.Unlock()
	<-t.wake
}

// Any keeps an untyped constant / nil send value usable: it only boxes the value.
func Any(v any) any { return v }

// MapIter replaces `range m` over a map: under simulation the keys are visited in a
// deterministic (sorted by printed form, then tape-rotated) order with live lookup,
// so deletions during iteration behave as with the native loop.
func MapIter[K comparable, V any](m map[K]V) func(yield func(K, V) bool) {
	return func(yield func(K, V) bool) {
		s := cur.Load()
		if s == nil {
			for k, v := range m {
				if !yield(k, v) {
					return
				}
			}
			return
		}
		type kv struct {
			k K
			s string
		}
		keys := make([]kv, 0, len(m))
		for k := range m {
			keys = append(keys, kv{k, fmt.Sprintf("%#v", k)})
		}
		sort.Slice(keys, func(i, j int) bool { return keys[i].s < keys[j].s })
		start := 0
		if len(keys) > 1 {
			s.mu.Lock()
			start = s.Tape.Intn(len(keys))
			s.mu.Unlock()
		}
		for i := range keys {
			k := keys[(start+i)%len(keys)].k
			v, ok := m[k]
			if !ok {
				continue
			}
			if !yield(k, v) {
				return
			}
		}
	}
}

// Intn draws an environment choice from the run's tape (callers hold the baton).
func (s *Sim) Intn(n int) int {
	s.mu.Lock()
	defer s.mu.Unlock()
	return s.Tape.Intn(n)
}

// BlockedTasks lists tasks that are neither done nor ready (blocked on a lock, waitgroup or native operation).
func (s *Sim) BlockedTasks() []*Task {
	s.mu.Lock()
	defer s.mu.Unlock()
	var out []*Task
	for _, t := range s.all {
		if t.state == stBlocked {
			out = append(out, t)
		}
	}
	return out
}

// BlockOn reports what a task is waiting for ("mutex", "rwmutex", "waitgroup", "native", ...).
func (t *Task) BlockOn() string { return t.blockOn }

// HoldersOf returns the tasks holding the lock a task is waiting for.
func HoldersOf(t *Task) []*Task {
	switch l := t.WaitsOn.(type) {
	case *Mutex:
		if l.Holder != nil {
			return []*Task{l.Holder}
		}
	case *RWMutex:
		if l.Holder != nil {
			return []*Task{l.Holder}
		}
		return append([]*Task(nil), l.RHolders...)
	}
	return nil
}

// HashString is a convenience FNV hash for harness code.
func HashString(s string) uint64 {
	h := fnv.New64a()
	h.Write([]byte(s))
	return h.Sum64()
}
