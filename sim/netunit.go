package sim

// netunit: the real network/libp2p_impl.go on SimHost with scripted stream-open outcomes, write failures,
// cancellation, and raw inbound byte streams (C15).

import (
	"bytes"
	"context"
	"fmt"
	"time"

	"github.com/libp2p/go-libp2p/core/peer"

	datatransfer "github.com/filecoin-project/go-data-transfer/v2"
	"github.com/filecoin-project/go-data-transfer/v2/network"

	"verif/simrt"
)

type recvRec struct {
	kind   string // request, response, restart-existing, error
	sender peer.ID
	sum    MsgSum
	at     time.Duration
	errText string
}

type unitReceiver struct {
	r    *RunCtx
	t0   time.Time
	recs []recvRec
}

func (u *unitReceiver) ReceiveRequest(ctx context.Context, sender peer.ID, incoming datatransfer.Request) {
	u.recs = append(u.recs, recvRec{kind: "request", sender: sender, sum: Summarise(incoming), at: time.Since(u.t0)})
}
func (u *unitReceiver) ReceiveResponse(ctx context.Context, sender peer.ID, incoming datatransfer.Response) {
	u.recs = append(u.recs, recvRec{kind: "response", sender: sender, sum: Summarise(incoming), at: time.Since(u.t0)})
}
func (u *unitReceiver) ReceiveRestartExistingChannelRequest(ctx context.Context, sender peer.ID, incoming datatransfer.Request) {
	u.recs = append(u.recs, recvRec{kind: "restart-existing", sender: sender, sum: Summarise(incoming), at: time.Since(u.t0)})
}
func (u *unitReceiver) ReceiveError(err error) {
	u.recs = append(u.recs, recvRec{kind: "error", at: time.Since(u.t0), errText: err.Error()})
}

func wantHandler(s MsgSum) string {
	if s.Req {
		if s.RestartEx {
			return "restart-existing"
		}
		return "request"
	}
	return "response"
}

func netunitSend(r *RunCtx) {
	w := r.W
	t0 := time.Now()
	hs, hr := w.Net.NewHost(peer.ID("peer-S")), w.Net.NewHost(peer.ID("peer-R"))
	attempts := 1 + r.Intn(6)
	minD := time.Duration(10+r.Intn(2000)) * time.Millisecond
	maxD := minD * time.Duration(1+r.Intn(20))
	openTO := time.Duration(1+r.Intn(10)) * time.Second
	sender := network.NewFromLibp2pHost(hs, network.RetryParameters(minD, maxD, float64(attempts), float64(1+r.Intn(5))), network.SendMessageParameters(openTO, 10*time.Second))
	receiver := network.NewFromLibp2pHost(hr)
	ur := &unitReceiver{r: r, t0: t0}
	receiver.SetDelegate(ur)
	// script
	n := r.Intn(attempts + 3)
	script := make([]byte, n)
	for i := range script {
		script[i] = "fffbo"[r.Intn(5)]
	}
	script = append(script, 'o') // eventually reachable (beyond the attempts that matter, maybe)
	if r.Intn(4) == 0 {
		for i := range script {
			script[i] = 'f'
		}
	}
	w.Net.OpenScript[[2]peer.ID{hs.id, hr.id}] = append([]byte(nil), script...)
	writeFail := 0
	if r.Intn(4) == 0 {
		writeFail = 1 + r.Intn(12)
		w.Net.WriteFailAfter = writeFail
	}
	var cancelAt time.Duration = -1
	ctx, cancel := context.WithCancel(context.Background())
	defer cancel()
	if r.Intn(3) == 0 {
		cancelAt = time.Duration(r.Intn(30000)) * time.Millisecond
		simrt.Go(func() {
			simrt.Sleep(cancelAt)
			cancel()
		})
	}
	g := genMessage(r)
	if g == nil {
		return
	}
	s0 := Summarise(g.msg)
	var err error
	var ret time.Duration
	call := r.OpE("S", "SendMessage", func() error {
		err = sender.SendMessage(ctx, hr.id, g.msg)
		ret = time.Since(t0)
		return err
	})
	simrt.Sleep(2 * time.Hour)
	if !call.Returned {
		return // generic stuck-call oracle
	}
	who := fmt.Sprintf("attempts=%d script=%s writeFailAt=%d cancelAt=%v openTimeout=%v backoff=[%v,%v]", attempts, script, writeFail, cancelAt, openTO, minD, maxD)
	opens := 0
	lastOK := false
	for _, o := range w.Net.Opens {
		if o.From == hs.id {
			opens++
			lastOK = o.Outcome == 'o'
		}
	}
	if opens > attempts {
		r.Failf("C15", "too-many-open-attempts", "", "SendMessage made %d stream-open attempts, configured maximum is %d (%s)", opens, attempts, who)
	}
	if opens >= 2 {
		r.Probe("retried")
	}
	delivered := 0
	for _, rc := range ur.recs {
		if rc.kind != "error" && rc.sum == s0 {
			delivered++
			if rc.sender != hs.id || rc.kind != wantHandler(s0) {
				r.Failf("C15", "inbound-dispatch", rc.kind, "message %s sent by %s was handed to handler %q with sender %s", s0.Kind(), hs.id, rc.kind, rc.sender)
			}
		}
	}
	wroteAll := writeFail == 0 || w.Net.WriteFailAfter > 0 // injected failure not reached
	if err == nil {
		r.Probe("sent-ok")
		if !lastOK {
			r.Failf("C15", "success-without-open", "", "SendMessage returned nil although no stream-open attempt succeeded (%s)", who)
		}
		if delivered != 1 {
			r.Failf("C15", "not-delivered-exactly-once", fmt.Sprint(delivered), "SendMessage returned nil but the receiver got the message %d times (%s)", delivered, who)
		}
		if cancelAt >= 0 && ret > cancelAt {
			r.Failf("C15", "success-after-cancel", "", "SendMessage returned nil at %v although its context was cancelled at %v", ret, cancelAt)
		}
	} else {
		if delivered > 0 {
			r.Failf("C15", "delivered-despite-error", "", "SendMessage returned %v but the receiver got the message %d times (%s)", err, delivered, who)
		}
		if lastOK && wroteAll && (cancelAt < 0 || cancelAt > ret) {
			r.Failf("C15", "failed-although-open-succeeded", "", "SendMessage returned %v although attempt %d opened a stream and no write failed (%s)", err, opens, who)
		}
		if cancelAt >= 0 && ret > cancelAt {
			r.Probe("cancelled-in-flight")
			r.Failf("C15", "cancel-not-prompt", "", "context cancelled at %v but SendMessage returned only at %v (%s)", cancelAt, ret, who)
		}
		if cancelAt >= 0 && ret == cancelAt {
			r.Probe("cancelled-in-flight")
		}
		if !lastOK && opens < attempts && (cancelAt < 0 || cancelAt > ret) {
			// gave up early without having used its attempts and without cancellation
			r.Failf("C15", "gave-up-early", "", "SendMessage failed after %d of %d attempts without cancellation (%s): %v", opens, attempts, who, err)
		}
	}
	if !wroteAll && lastOK {
		r.Probe("write-failed")
		resetBySender := false
		for _, rs := range w.Net.Resets {
			if rs.By == hs.id {
				resetBySender = true
			}
		}
		if err == nil {
			r.Failf("C15", "write-failure-not-reported", "", "a write failed but SendMessage returned nil (%s)", who)
		}
		if !resetBySender {
			r.Failf("C15", "write-failure-no-reset", "", "a write failed but the stream was not reset (%s)", who)
		}
	}
	r.Probe("nontrivial")
	r.Sample["send"] = who
	r.Sample["result"] = fmt.Sprint(err)
	r.Sample["opens"] = opens
}

func netunitInbound(r *RunCtx) {
	w := r.W
	t0 := time.Now()
	hs, hr := w.Net.NewHost(peer.ID("peer-S")), w.Net.NewHost(peer.ID("peer-R"))
	receiver := network.NewFromLibp2pHost(hr)
	ur := &unitReceiver{r: r, t0: t0}
	receiver.SetDelegate(ur)
	// build the byte stream: 0-3 well-formed messages, optionally a malformed item somewhere
	var items []string
	var sums []MsgSum
	var stream []byte
	malformedAt := -1
	truncated := false
	n := r.Intn(4)
	bad := -1
	if r.Intn(2) == 0 {
		bad = r.Intn(n + 1)
	}
	for i := 0; i <= n; i++ {
		if i == bad {
			malformedAt = len(sums)
			switch r.Intn(5) {
			case 4: // a well-formed message whose IsRq flag contradicts the body that is present
				g := genMessage(r)
				if g == nil {
					continue
				}
				var buf bytes.Buffer
				_ = g.msg.ToNet(&buf)
				b := buf.Bytes()
				// DAG-CBOR map, keys sorted by length: a3 64 "IsRq" <bool> ...
				if len(b) > 6 && b[0] == 0xa3 && string(b[2:6]) == "IsRq" && (b[6] == 0xf4 || b[6] == 0xf5) {
					b[6] ^= 0x01
					stream = append(stream, b...)
					items = append(items, "flag-contradicts-body-"+g.kind)
					r.Probe("flag-contradicts-body")
				} else {
					r.HarnessErr = fmt.Sprintf("unexpected message layout %x", b[:8])
				}
			case 0: // random junk
				k := 1 + r.Intn(12)
				junk := make([]byte, k)
				for j := range junk {
					junk[j] = byte(r.Intn(256))
				}
				junk[0] = 0xff // not a valid CBOR item start for a map
				stream = append(stream, junk...)
				items = append(items, fmt.Sprintf("junk(%x)", junk))
			case 1: // valid CBOR, wrong shape
				stream = append(stream, 0x83, 0x01, 0x02, 0x03)
				items = append(items, "cbor-list")
			case 2: // map with null bodies
				e := &refEnc{}
				e.mapSorted([]refKV{{"IsRq", func() { e.boolv(true) }}, {"Request", func() { e.null() }}, {"Response", func() { e.null() }}})
				stream = append(stream, e.buf.Bytes()...)
				items = append(items, "null-bodies")
			default: // truncated message, then the stream ends
				g := genMessage(r)
				if g == nil {
					continue
				}
				var buf bytes.Buffer
				_ = g.msg.ToNet(&buf)
				cut := 1 + r.Intn(buf.Len()-1)
				stream = append(stream, buf.Bytes()[:cut]...)
				items = append(items, fmt.Sprintf("truncated-%s@%d", g.kind, cut))
				truncated = true
			}
			break
		}
		if i == n {
			break
		}
		g := genMessage(r)
		if g == nil {
			continue
		}
		var buf bytes.Buffer
		_ = g.msg.ToNet(&buf)
		stream = append(stream, buf.Bytes()...)
		sums = append(sums, Summarise(g.msg))
		items = append(items, g.kind)
	}
	var st *Stream
	r.Op("S", "raw-writer", func() {
		s, err := hs.NewStream(context.Background(), hr.id, datatransfer.ProtocolDataTransfer1_2)
		if err != nil {
			r.HarnessErr = "raw NewStream: " + err.Error()
			return
		}
		st = s.(*Stream)
		// write in tape-chosen pieces
		for off := 0; off < len(stream); {
			k := 1 + r.Intn(len(stream)-off)
			if _, err := s.Write(stream[off : off+k]); err != nil {
				break
			}
			off += k
		}
		_ = s.Close()
	})
	simrt.Sleep(time.Minute)
	if st == nil {
		return
	}
	who := fmt.Sprintf("stream items %v", items)
	var got []recvRec
	nerr := 0
	errTexts := ""
	for _, rc := range ur.recs {
		if rc.kind == "error" {
			nerr++
			errTexts += rc.errText + "; "
		} else {
			got = append(got, rc)
		}
	}
	// every well-formed message before the malformed item: exactly once, in order, right handler, right peer
	want := sums
	if malformedAt >= 0 {
		want = sums[:malformedAt]
	}
	if len(got) != len(want) {
		sig := fmt.Sprintf("want=%d got=%d", len(want), len(got))
		if len(want) >= 2 && len(got) == 0 {
			sig = "several-messages-on-one-stream|none-delivered"
		}
		r.Failf("C15", "inbound-count", sig, "%s: %d well-formed messages precede the malformed part, handlers were invoked %d times (errors reported: %s)", who, len(want), len(got), errTexts)
	} else {
		for i := range want {
			if got[i].sum != want[i] || got[i].kind != wantHandler(want[i]) || got[i].sender != hs.id {
				r.Failf("C15", "inbound-dispatch", got[i].kind, "%s: message %d (%s) was handed to handler %q with sender %s as %+v", who, i, want[i].Kind(), got[i].kind, got[i].sender, got[i].sum)
			}
		}
	}
	if len(want) >= 2 {
		r.Probe("several-messages-on-one-stream")
	}
	if malformedAt >= 0 && !truncated {
		r.Probe("malformed-stream")
		resetByReceiver := false
		for _, rs := range w.Net.Resets {
			if rs.By == hr.id && rs.Stream == st.p.id {
				resetByReceiver = true
			}
		}
		if !resetByReceiver {
			r.Failf("C15", "malformed-not-reset", "", "%s: the malformed stream was not reset by the receiver", who)
		}
		if nerr != 1 {
			r.Failf("C15", "malformed-not-reported", fmt.Sprint(nerr), "%s: ReceiveError was called %d times for one malformed stream", who, nerr)
		}
	}
	if malformedAt < 0 && nerr != 0 {
		sig := ""
		if len(want) >= 2 {
			sig = "several-messages-on-one-stream"
		}
		r.Failf("C15", "error-on-wellformed-stream", sig, "%s: ReceiveError was called on a well-formed stream (%s)", who, errTexts)
	}
	r.Probe("nontrivial")
	r.Sample["inbound"] = who
	r.Sample["handler_calls"] = len(got)
}

func init() {
	Register("C15",
		Stratum{Name: "send-retry-cancel-writefail", Weight: 3, Fn: netunitSend, MaxSteps: 100_000, Horizon: 3 * time.Hour},
		Stratum{Name: "inbound-dispatch", Weight: 2, Fn: netunitInbound, MaxSteps: 100_000, Horizon: 3 * time.Hour},
	)
}
