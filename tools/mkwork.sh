#!/bin/bash
# mkwork.sh <workdir> : build the transformed scratch tree of /repo's *working tree* (plus the four
# small dependencies that contain synchronisation) and compile the simulator test binary.
# Output: <workdir>/sim.test, <workdir>/xform.stats
# Exit 2 on any build problem (never a VIOLATION).
set -u
W="$1"
REPO="${VERIF_REPO:-/repo}"
V="$(cd "$(dirname "$0")/.." && pwd)"
export GOFLAGS=-mod=mod GOPROXY=off GOSUMDB=off GOTOOLCHAIN=local PATH=/opt/veriftools/go1.26.8/bin:$PATH
export GOLOG_LOG_LEVEL=fatal
fail() { echo "BUILD-ERROR: $*" >&2; exit 2; }

rm -rf "$W/deps" "$W/repo" "$W/sim" "$W/simrt"
mkdir -p "$W/deps" "$W/repo" || fail "mkdir"
rsync -a --delete --exclude .git "$REPO/" "$W/repo/" || fail "rsync repo"
MC="$(go env GOMODCACHE)/github.com"
cp -r "$MC/filecoin-project/go-statemachine@v1.0.2-0.20220322104818-27f8fbb86dfd" "$W/deps/go-statemachine" || fail "dep statemachine"
cp -r "$MC/filecoin-project/go-ds-versioning@v0.1.2" "$W/deps/go-ds-versioning" || fail "dep versioning"
cp -r "$MC/hannahhoward/go-pubsub@v0.0.0-20200423002714-8d62886cc36e" "$W/deps/go-pubsub" || fail "dep pubsub"
cp -r "$MC/bep/debounce@v1.2.0" "$W/deps/debounce" || fail "dep debounce"
chmod -R u+w "$W/deps"
for d in go-statemachine go-ds-versioning go-pubsub; do sed -i -E 's/^go 1\.[0-9]+(\.[0-9]+)?$/go 1.23/' "$W/deps/$d/go.mod"; done
printf 'module github.com/bep/debounce\n\ngo 1.23\n' > "$W/deps/debounce/go.mod"
# simulator sources are copied next to the tree so that replace paths are local to the work dir
rsync -a "$V/simrt/" "$W/simrt/" || fail "copy simrt"
rsync -a --exclude go.mod --exclude go.sum "$V/sim/" "$W/sim/" || fail "copy sim"
cat >> "$W/repo/go.mod" <<EOT

require verif/simrt v0.0.0

replace verif/simrt => $W/simrt
replace github.com/filecoin-project/go-statemachine => $W/deps/go-statemachine
replace github.com/filecoin-project/go-ds-versioning => $W/deps/go-ds-versioning
replace github.com/hannahhoward/go-pubsub => $W/deps/go-pubsub
replace github.com/bep/debounce => $W/deps/debounce
EOT
[ -x "$V/.build/xform" ] && [ ! "$V/xform/main.go" -nt "$V/.build/xform" ] || (cd "$V/xform" && mkdir -p "$V/.build" && go build -o "$V/.build/xform" . ) || fail "build xform"
(cd "$W/repo" && "$V/.build/xform" -dir "$W/repo" -roots "$W/repo,$W/deps" ./... \
   github.com/filecoin-project/go-statemachine/... github.com/filecoin-project/go-ds-versioning/... \
   github.com/hannahhoward/go-pubsub/... github.com/bep/debounce/... > "$W/xform.stats" 2> "$W/xform.err") || { cat "$W/xform.err" >&2; fail "xform"; }
# harness module
sed -e "s#@WORK@#$W#g" "$V/sim/go.mod.tmpl" > "$W/sim/go.mod"
cp "$REPO/go.sum" "$W/sim/go.sum"
(cd "$W/sim" && go test -c -trimpath -o "$W/sim.test" . 2> "$W/build.err") || { head -50 "$W/build.err" >&2; fail "go test -c"; }
if [ "${VERIF_RACE:-0}" = "1" ]; then
  (cd "$W/sim" && go test -c -race -trimpath -o "$W/sim.race.test" . 2> "$W/build.race.err") || { head -50 "$W/build.race.err" >&2; fail "go test -c -race"; }
fi
exit 0
