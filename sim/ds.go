package sim

import (
	"context"
	"sort"
	"strings"

	ds "github.com/ipfs/go-datastore"
	dsq "github.com/ipfs/go-datastore/query"

	"verif/simrt"
)

// Disk is a datastore.Batching with an append-only write log; every Put/Delete/Commit is one
// atomic log entry (the contract go-datastore backends give). Single-threaded: only the baton
// holder touches it.
type Disk struct {
	m   map[string][]byte
	Log []WriteEntry
	// FailWrites, when >0, makes the next writes fail (robustness strata only)
	FailWrites int
	// Dead: the process that owned this handle crashed; its late writes go nowhere
	Dead bool
	// OnCommit is called after every successful write (fault placement)
	OnCommit func(n int)
	// YieldOps makes every datastore operation a scheduling point, so that other tasks interleave with
	// multi-step datastore work such as a migration
	YieldOps bool
	// FailAt (>0): the FailAt-th datastore operation from now on (reads, queries and writes alike) and the FailLen-1
	// operations after it fail with an I/O error (disk fault injection)
	FailAt, FailLen int
	opCount         int
	FaultsFired     int
	// Reads/Writes by key prefix are counted for oracles that must show "did not touch"
	Touched []string
}

func (d *Disk) touch(op, key string) {
	if d.YieldOps {
		d.Touched = append(d.Touched, op+" "+key)
		simrt.Yield("disk." + op)
	}
}

// faulty counts one datastore operation and reports whether the injected I/O fault hits it.
func (d *Disk) faulty() bool {
	if d.FailAt <= 0 {
		return false
	}
	d.opCount++
	if d.opCount >= d.FailAt && d.opCount < d.FailAt+d.FailLen {
		d.FaultsFired++
		return true
	}
	return false
}

const errDiskIO = diskErr("simdisk: injected I/O error")

type WriteOp struct {
	Key    string
	Value  []byte // nil = delete
	Delete bool
}
type WriteEntry struct{ Ops []WriteOp }

func NewDisk() *Disk { return &Disk{m: map[string][]byte{}} }

// Reopen builds the disk a process would find after a crash right after log entry n.
func (d *Disk) Reopen(n int) *Disk {
	nd := NewDisk()
	for _, e := range d.Log[:n] {
		nd.apply(e)
		nd.Log = append(nd.Log, e)
	}
	return nd
}

func (d *Disk) apply(e WriteEntry) {
	for _, op := range e.Ops {
		if op.Delete {
			delete(d.m, op.Key)
		} else {
			d.m[op.Key] = op.Value
		}
	}
}

func (d *Disk) commit(e WriteEntry) error {
	if d.Dead {
		return errDisk
	}
	if d.FailWrites > 0 {
		d.FailWrites--
		return errDisk
	}
	if d.faulty() {
		return errDiskIO
	}
	d.apply(e)
	d.Log = append(d.Log, e)
	if d.OnCommit != nil {
		d.OnCommit(len(d.Log))
	}
	return nil
}

type diskErr string

func (e diskErr) Error() string { return string(e) }

const errDisk = diskErr("simdisk: injected write error")

func (d *Disk) Get(ctx context.Context, k ds.Key) ([]byte, error) {
	d.touch("get", k.String())
	if d.faulty() {
		return nil, errDiskIO
	}
	v, ok := d.m[k.String()]
	if !ok {
		return nil, ds.ErrNotFound
	}
	return append([]byte(nil), v...), nil
}
func (d *Disk) Has(ctx context.Context, k ds.Key) (bool, error) {
	d.touch("has", k.String())
	if d.faulty() {
		return false, errDiskIO
	}
	_, ok := d.m[k.String()]
	return ok, nil
}
func (d *Disk) GetSize(ctx context.Context, k ds.Key) (int, error) {
	v, ok := d.m[k.String()]
	if !ok {
		return -1, ds.ErrNotFound
	}
	return len(v), nil
}
func (d *Disk) Query(ctx context.Context, q dsq.Query) (dsq.Results, error) {
	d.touch("query", q.Prefix)
	if d.faulty() {
		return nil, errDiskIO
	}
	keys := make([]string, 0, len(d.m))
	for k := range d.m {
		if strings.HasPrefix(k, q.Prefix) {
			keys = append(keys, k)
		}
	}
	sort.Strings(keys)
	es := make([]dsq.Entry, 0, len(keys))
	for _, k := range keys {
		es = append(es, dsq.Entry{Key: k, Value: append([]byte(nil), d.m[k]...), Size: len(d.m[k])})
	}
	res := dsq.ResultsWithEntries(q, es)
	// prefix handled above; apply remaining query features (filters, orders, limit)
	q2 := q
	q2.Prefix = ""
	return dsq.NaiveQueryApply(q2, res), nil
}
func (d *Disk) Put(ctx context.Context, k ds.Key, v []byte) error {
	d.touch("put", k.String())
	return d.commit(WriteEntry{Ops: []WriteOp{{Key: k.String(), Value: append([]byte(nil), v...)}}})
}
func (d *Disk) Delete(ctx context.Context, k ds.Key) error {
	d.touch("delete", k.String())
	return d.commit(WriteEntry{Ops: []WriteOp{{Key: k.String(), Delete: true}}})
}
func (d *Disk) Sync(ctx context.Context, prefix ds.Key) error { return nil }
func (d *Disk) Close() error                                 { return nil }
func (d *Disk) Batch(ctx context.Context) (ds.Batch, error)   { return &batch{d: d}, nil }

type batch struct {
	d   *Disk
	ops []WriteOp
}

func (b *batch) Put(ctx context.Context, k ds.Key, v []byte) error {
	b.ops = append(b.ops, WriteOp{Key: k.String(), Value: append([]byte(nil), v...)})
	return nil
}
func (b *batch) Delete(ctx context.Context, k ds.Key) error {
	b.ops = append(b.ops, WriteOp{Key: k.String(), Delete: true})
	return nil
}
func (b *batch) Commit(ctx context.Context) error {
	if len(b.ops) == 0 {
		return nil
	}
	ops := b.ops
	b.ops = nil
	b.d.touch("commit", "")
	return b.d.commit(WriteEntry{Ops: ops})
}

var _ ds.Batching = (*Disk)(nil)

// rawBySuffix returns the current durable bytes of the (single) key ending in suffix, as a string ("" if absent).
func (d *Disk) rawBySuffix(suffix string) string {
	keys := make([]string, 0, 1)
	for k := range d.m {
		if strings.HasSuffix(k, suffix) {
			keys = append(keys, k)
		}
	}
	sort.Strings(keys)
	out := ""
	for _, k := range keys {
		out += k + "=" + string(d.m[k]) + ";"
	}
	return out
}

func dsKey(s string) ds.Key { return ds.NewKey(s) }

// dump renders all keys under prefix with their bytes (for byte-equality checks).
func (d *Disk) dump(prefix string) string {
	keys := make([]string, 0, len(d.m))
	for k := range d.m {
		if strings.HasPrefix(k, prefix) {
			keys = append(keys, k)
		}
	}
	sort.Strings(keys)
	var sb strings.Builder
	for _, k := range keys {
		sb.WriteString(k)
		sb.WriteByte('=')
		sb.Write(d.m[k])
		sb.WriteByte(';')
	}
	return sb.String()
}
