package sim

// netsim adversarial phase: after the settle phase (everything quiescent) one message or API call at a time
// is injected, the victim runs to quiescence, and durable bytes / logs are compared (C05, C18, C02, local role checks).

import (
	"context"
	"fmt"
	"strings"
	"time"

	"github.com/ipfs/go-cid"
	"github.com/ipfs/go-graphsync"
	"github.com/ipld/go-ipld-prime/datamodel"
	cidlink "github.com/ipld/go-ipld-prime/linking/cid"
	"github.com/ipld/go-ipld-prime/node/basicnode"
	"github.com/libp2p/go-libp2p/core/peer"

	datatransfer "github.com/filecoin-project/go-data-transfer/v2"
	"github.com/filecoin-project/go-data-transfer/v2/message"
	"github.com/filecoin-project/go-data-transfer/v2/network"
	"github.com/filecoin-project/go-data-transfer/v2/transport/graphsync/extension"

	"verif/simrt"
)

type rawSender struct {
	name string
	id   peer.ID
	net  network.DataTransferNetwork // a bare network layer on the sender's host (no manager behind it)
	gs   *GS
}

type victimSnap struct {
	disk    string
	perChan map[datatransfer.ChannelID]string
	snaps   map[datatransfer.ChannelID]Snap
	nTp     int
	nGS     int
	nWire   int
	nEv     int
	nVal    int
}

func (nr *netRun) snapVictim(n *Node) victimSnap {
	v := victimSnap{disk: n.Disk.dump("/3/"), perChan: map[datatransfer.ChannelID]string{}, snaps: map[datatransfer.ChannelID]Snap{},
		nTp: len(n.TpCalls), nGS: len(n.GS.Calls), nWire: len(n.Wire), nEv: len(n.Events), nVal: len(n.ValCalls)}
	for _, x := range nr.xs {
		if !x.opened {
			continue
		}
		v.perChan[x.chid] = n.Disk.rawBySuffix("/" + x.chid.String())
		if s, ok := n.State(x.chid); ok {
			v.snaps[x.chid] = s
		}
	}
	return v
}

func (nr *netRun) quiesce() { simrt.Sleep(90 * time.Second) }

// advMessages builds one message of every kind for transfer id tid.
func advMessages(r *RunCtx, x *xfer, tid datatransfer.TransferID, asRequest bool) []datatransfer.Message {
	v := datatransfer.TypedVoucher{Voucher: basicnode.NewString(fmt.Sprintf("adv-%d", r.Intn(1000))), Type: "T0"}
	vr := datatransfer.TypedVoucher{Voucher: basicnode.NewString(fmt.Sprintf("advr-%d", r.Intn(1000))), Type: "R0"}
	var out []datatransfer.Message
	if asRequest {
		if m, err := message.NewRequest(tid, false, x.pull, &x.voucher, x.root, x.sel); err == nil {
			out = append(out, m)
		}
		if m, err := message.NewRequest(tid, true, x.pull, &x.voucher, x.root, x.sel); err == nil {
			out = append(out, m)
		}
		out = append(out, message.UpdateRequest(tid, true), message.UpdateRequest(tid, false), message.CancelRequest(tid))
		if m, err := message.VoucherRequest(tid, &v); err == nil {
			out = append(out, m)
		}
		out = append(out, message.RestartExistingChannelRequest(x.chid))
		return out
	}
	for _, mk := range []func() (datatransfer.Response, error){
		func() (datatransfer.Response, error) { return message.NewResponse(tid, true, false, nil) },
		func() (datatransfer.Response, error) { return message.NewResponse(tid, false, false, nil) },
		func() (datatransfer.Response, error) { return message.RestartResponse(tid, true, false, nil) },
		func() (datatransfer.Response, error) { return message.VoucherResultResponse(tid, true, false, &vr) },
		func() (datatransfer.Response, error) { return message.CompleteResponse(tid, true, false, nil) },
		func() (datatransfer.Response, error) { return message.CompleteResponse(tid, true, true, nil) },
	} {
		if m, err := mk(); err == nil {
			out = append(out, m)
		}
	}
	out = append(out, message.UpdateResponse(tid, true), message.UpdateResponse(tid, false), message.CancelResponse(tid))
	return out
}

func (nr *netRun) newRawSender(name string, n *Node) *rawSender {
	if n != nil {
		return &rawSender{name: name, id: n.ID, net: network.NewFromLibp2pHost(n.Host, network.RetryParameters(time.Second, 2*time.Second, 2, 2)), gs: n.GS}
	}
	id := peer.ID("peer-" + name)
	h := nr.w.Net.NewHost(id)
	h.Label = name
	g := nr.w.GS.NewGS(id, NewStore().LinkSystem())
	g.Label = name
	return &rawSender{name: name, id: id, net: network.NewFromLibp2pHost(h, network.RetryParameters(time.Second, 2*time.Second, 2, 2)), gs: g}
}

// deliver sends msg to victim over the chosen carrier and waits for quiescence.
func (nr *netRun) deliver(from *rawSender, victim *Node, msg datatransfer.Message, viaGS bool, x *xfer) {
	sum := Summarise(msg)
	nr.rawSent = append(nr.rawSent, rawRec{from: from.id, to: victim.ID, sum: sum})
	nr.w.Logf("ADV %s -> %s (%s): %s", from.name, victim.Name, map[bool]string{true: "graphsync", false: "libp2p"}[viaGS], sum)
	if viaGS {
		exts, err := extension.ToExtensionData(msg, []graphsync.ExtensionName{extension.ExtensionDataTransfer1_1})
		if err == nil {
			nr.r.Op(from.name, "adv:gs-request", func() {
				from.gs.RequestRaw(context.Background(), victim.ID, cidlink.Link{Cid: x.root}, x.sel, exts...)
			})
		}
	} else {
		nr.r.Op(from.name, "adv:send", func() { _ = from.net.SendMessage(context.Background(), victim.ID, msg) })
	}
	nr.quiesce()
}

type rawRec struct {
	from, to peer.ID
	sum      MsgSum
}

// unchanged compares the victim with a snapshot for every pre-existing channel.
func (nr *netRun) unchanged(prop, what string, victim *Node, before victimSnap, allowChannel *xfer) {
	r := nr.r
	for _, x := range nr.xs {
		if !x.opened || x == allowChannel {
			continue
		}
		if now := victim.Disk.rawBySuffix("/" + x.chid.String()); now != before.perChan[x.chid] {
			after, _ := victim.State(x.chid)
			r.Failf(prop, "existing-channel-changed", what+"|"+strings.Join(before.snaps[x.chid].Diff(after), "+"), "%s changed the durable state of existing channel #%d on node %s: %v -> %v", what, x.idx, victim.Name, before.snaps[x.chid], after)
		}
		for _, tc := range victim.TpCalls[before.nTp:] {
			if tc.ChID == x.chid && tc.Kind != "cleanup" {
				r.Failf(prop, "existing-channel-transport-touched", what+"|"+tc.Kind, "%s made node %s call transport.%s on existing channel #%d", what, victim.Name, tc.Kind, x.idx)
			}
		}
		for _, e := range victim.Events[before.nEv:] {
			if e.Snap.ChID == x.chid {
				r.Failf(prop, "existing-channel-event", what+"|"+datatransfer.Events[e.Code], "%s made node %s announce %s for existing channel #%d", what, victim.Name, datatransfer.Events[e.Code], x.idx)
			}
		}
	}
}

// adversarialPhase runs the configured injections one at a time.
func (nr *netRun) adversarialPhase() {
	r := nr.r
	cfg := nr.cfg
	if !(cfg.advStranger || cfg.advRole || cfg.advRestart || cfg.advDup || cfg.advTerminal || cfg.advLocalRole) {
		return
	}
	if !nr.A.Up || !nr.B.Up || nr.crashed {
		return
	}
	nr.quiesce()
	S := nr.newRawSender("S", nil)
	rawA := nr.newRawSender("A-raw", nr.A)
	rawB := nr.newRawSender("B-raw", nr.B)
	var open []*xfer
	for _, x := range nr.xs {
		if x.opened && !x.raw {
			open = append(open, x)
		}
	}
	if len(open) == 0 {
		return
	}
	pick := func() *xfer { return open[r.Intn(len(open))] }

	// ---- strangers: every message kind, ids colliding with open channels, both carriers, both victims
	if cfg.advStranger {
		for k := 0; k < 2+r.Intn(4); k++ {
			x := pick()
			victim := []*Node{nr.A, nr.B}[r.Intn(2)]
			msgs := advMessages(r, x, x.chid.ID, r.Intn(2) == 0)
			msg := msgs[r.Intn(len(msgs))]
			before := nr.snapVictim(victim)
			nr.deliver(S, victim, msg, r.Intn(3) == 0, x)
			nr.unchanged("C05", "a "+Summarise(msg).Kind()+" from a stranger", victim, before, nil)
			r.Probe("adv-stranger")
			r.Probe("adv-nontrivial")
		}
	}
	// ---- role-confused messages from the counterparty: requests to the initiator, responses to the responder
	if cfg.advRole {
		for k := 0; k < 2+r.Intn(4); k++ {
			x := pick()
			var victim *Node
			var from *rawSender
			var msgs []datatransfer.Message
			if r.Intn(2) == 0 {
				victim, from = nr.A, rawB // B sends *requests* on a channel A initiated
				msgs = advMessages(r, x, x.chid.ID, true)
			} else {
				victim, from = nr.B, rawA // A sends *responses* on a channel it initiated
				msgs = advMessages(r, x, x.chid.ID, false)
			}
			msg := msgs[r.Intn(len(msgs))]
			if Summarise(msg).RestartEx && victim == nr.A {
				continue // a restart-existing request from the responder to the initiator is the legitimate use
			}
			before := nr.snapVictim(victim)
			nr.deliver(from, victim, msg, false, x)
			nr.unchanged("C05", "a role-confused "+Summarise(msg).Kind()+" from the counterparty", victim, before, nil)
			r.Probe("adv-role-confused")
			r.Probe("adv-nontrivial")
		}
	}
	// ---- restart requests: single-field mutations of the valid one must not be honoured; the valid one must
	if cfg.advRestart {
		for k := 0; k < 1+r.Intn(3); k++ {
			x := pick()
			sb, ok := nr.B.State(x.chid)
			if !ok {
				continue
			}
			mut := r.Intn(7)
			tid, pull, base, v := x.chid.ID, x.pull, x.root, x.voucher
			what := "valid"
			switch mut {
			case 1:
				base = wireCids[r.Intn(len(wireCids))]
				what = "base-cid"
			case 2:
				v.Type = "T1"
				what = "voucher-type"
			case 3:
				v.Voucher = basicnode.NewString("forged")
				what = "voucher"
			case 4:
				tid = x.chid.ID + 7777
				what = "transfer-id"
			case 5:
				what = "from-stranger"
			case 6:
				// a voucher the initiator did send on this channel - but later, not the one the channel was opened with
				what = "voucher"
				v.Voucher = basicnode.NewString("forged")
				if st, err := nr.B.Mgr.ChannelState(context.Background(), x.chid); err == nil && len(sb.Vouchers) > 1 && sb.LastV != sb.Voucher0 {
					v = st.LastVoucher()
					what = "voucher(a-later-one-of-the-channel)"
					r.Probe("adv-restart-with-later-voucher")
				}
			}
			msg, err := message.NewRequest(tid, true, pull, &v, base, x.sel)
			if err != nil {
				continue
			}
			from := rawA
			if mut == 5 {
				from = S
			}
			before := nr.snapVictim(nr.B)
			nr.deliver(from, nr.B, msg, x.pull && r.Intn(2) == 0, x)
			honoured := false
			for _, e := range nr.B.Events[before.nEv:] {
				if e.Snap.ChID == x.chid && e.Code == datatransfer.Restart {
					honoured = true
				}
			}
			for _, w := range nr.B.Wire[before.nWire:] {
				if (w.Dir == "send" || (w.Dir == "sent" && w.Carrier == "graphsync")) && !w.Sum.Req && w.Sum.Restart && w.Sum.Accepted && w.Sum.TID == x.chid.ID && w.Peer == nr.A.ID {
					honoured = true // (a stranger restarting a channel of its own with the same number is none of our business)
				}
			}
			received := false
			for _, w := range nr.B.Wire[before.nWire:] {
				if w.Dir == "recv" && w.Sum.Req && w.Sum.Restart {
					received = true
				}
			}
			if !received {
				continue // e.g. a graphsync request for data the sender already holds never reaches the network
			}
			if mut == 0 {
				r.Probe("adv-valid-restart")
				r.Probe("adv-nontrivial")
				if !isTerminal(sb.Status) && !honoured && nr.B.Vals["T0"] != nil {
					// positive control: the unmutated request from the initiator of a live channel is honoured (unless the validator refused)
					refused := false
					for _, vc := range nr.B.ValCalls[before.nVal:] {
						if vc.Kind == "restart" && (vc.Err != nil || !vc.Result.Accepted) {
							refused = true
						}
					}
					if !refused && !isCleanup(sb.Status) {
						r.Failf("C05", "valid-restart-not-honoured", datatransfer.Statuses[sb.Status], "an unmutated restart request from the initiator of live channel #%d (%s) was not honoured", x.idx, datatransfer.Statuses[sb.Status])
					}
				}
				if isTerminal(sb.Status) && honoured {
					r.Failf("C02", "restart-of-terminated-channel-honoured", datatransfer.Statuses[sb.Status], "a restart request for terminated channel #%d (%s) was honoured", x.idx, datatransfer.Statuses[sb.Status])
				}
			} else {
				r.Probe("adv-mutated-restart")
				r.Probe("adv-nontrivial")
				if honoured {
					r.Failf("C05", "mutated-restart-honoured", what, "a restart request for channel #%d with a changed %s was honoured (Restart event / accepted restart response)", x.idx, what)
				}
				if mut == 4 || mut == 5 {
					nr.unchanged("C05", "a restart request with a foreign "+what, nr.B, before, nil)
				}
			}
		}
		// restart-existing-channel requests: only from the counterparty, only for channels the receiver initiated, never for terminated ones
		for k := 0; k < 1+r.Intn(2); k++ {
			x := pick()
			sa, ok := nr.A.State(x.chid)
			if !ok {
				continue
			}
			from := []*rawSender{S, rawB}[r.Intn(2)]
			victim := nr.A
			if r.Intn(3) == 0 {
				victim, from = nr.B, rawA // B did not initiate the channel
			}
			before := nr.snapVictim(victim)
			nr.deliver(from, victim, message.RestartExistingChannelRequest(x.chid), false, x)
			reissued := false
			for _, w := range victim.Wire[before.nWire:] {
				if (w.Dir == "send" || (w.Dir == "sent" && w.Carrier == "graphsync")) && w.Sum.Req && w.Sum.Restart && w.Sum.TID == x.chid.ID && w.Peer == nr.other(victim).ID {
					reissued = true
				}
			}
			legit := victim == nr.A && from == rawB && !isTerminal(sa.Status)
			if reissued && !legit {
				r.Failf("C05", "restart-existing-honoured", fmt.Sprintf("victim=%s from=%s status=%s", victim.Name, from.name, datatransfer.Statuses[sa.Status]), "a restart-existing-channel request for channel #%d from %s made node %s (channel status %s) re-issue the request", x.idx, from.name, victim.Name, datatransfer.Statuses[sa.Status])
			}
			if !legit {
				nr.unchanged("C05", "an illegitimate restart-existing-channel request", victim, before, nil)
			}
			r.Probe("adv-restart-existing")
			r.Probe("adv-nontrivial")
		}
	}
	// ---- duplicate new requests (same id, same initiator) on both carriers
	if cfg.advDup {
		for k := 0; k < 1+r.Intn(2); k++ {
			x := pick()
			if _, ok := nr.B.State(x.chid); !ok {
				continue
			}
			msg, err := message.NewRequest(x.chid.ID, false, x.pull, &x.voucher, x.root, x.sel)
			if err != nil {
				continue
			}
			before := nr.snapVictim(nr.B)
			nr.deliver(rawA, nr.B, msg, x.pull, x)
			r.Probe("adv-duplicate-new-request")
			r.Probe("adv-nontrivial")
			accepted := false
			for _, w := range nr.B.Wire[before.nWire:] {
				if (w.Dir == "send" || (w.Dir == "sent" && w.Carrier == "graphsync")) && !w.Sum.Req && w.Sum.New && w.Sum.Accepted && w.Sum.TID == x.chid.ID && w.Peer == nr.A.ID {
					accepted = true
				}
			}
			if accepted {
				r.Failf("C18", "duplicate-request-accepted", "", "a duplicate new request for existing channel #%d was answered Accepted", x.idx)
			}
			if now := nr.B.Disk.rawBySuffix("/" + x.chid.String()); now != before.perChan[x.chid] {
				after, _ := nr.B.State(x.chid)
				carrier := "libp2p"
				if x.pull {
					carrier = "graphsync"
				}
				r.Failf("C18", "duplicate-request-changed-existing-channel", carrier+"|"+strings.Join(before.snaps[x.chid].Diff(after), "+"), "a duplicate new request (%s) changed the stored state of existing channel #%d: %v -> %v", carrier, x.idx, before.snaps[x.chid], after)
			}
		}
	}
	// ---- terminal channels: every API call and every message kind from the counterparty change nothing (C02)
	if cfg.advTerminal {
		for _, x := range open {
			for _, n := range []*Node{nr.A, nr.B} {
				s0, ok := n.State(x.chid)
				if !ok || !isTerminal(s0.Status) {
					continue
				}
				r.Probe("adv-terminal-channel")
				r.Probe("adv-nontrivial")
				other := rawB
				if n == nr.B {
					other = rawA
				}
				before := nr.snapVictim(n)
				switch r.Intn(3) {
				case 0:
					// API calls
					err := n.Mgr.RestartDataTransferChannel(context.Background(), x.chid)
					if err != nil {
						r.Failf("C02", "restart-of-terminal-errors", n.Name, "RestartDataTransferChannel of terminated channel #%d returned %v (must be a successful no-op)", x.idx, err)
					}
					_ = n.Mgr.PauseDataTransferChannel(context.Background(), x.chid)
					_ = n.Mgr.ResumeDataTransferChannel(context.Background(), x.chid)
					_ = n.Mgr.CloseDataTransferChannel(context.Background(), x.chid)
					if n == nr.A {
						_ = n.Mgr.SendVoucher(context.Background(), x.chid, datatransfer.TypedVoucher{Voucher: basicnode.NewString("late"), Type: "T0"})
					} else {
						_ = n.Mgr.SendVoucherResult(context.Background(), x.chid, datatransfer.TypedVoucher{Voucher: basicnode.NewString("late"), Type: "R0"})
						_ = n.Mgr.UpdateValidationStatus(context.Background(), x.chid, datatransfer.ValidationResult{Accepted: r.Intn(2) == 0})
					}
					nr.quiesce()
					for _, w := range n.Wire[before.nWire:] {
						if w.Sum.Req && w.Sum.Restart && w.Sum.TID == x.chid.ID {
							r.Failf("C02", "restart-of-terminal-sends", n.Name, "restarting terminated channel #%d sent a restart request", x.idx)
						}
					}
					for _, tc := range n.TpCalls[before.nTp:] {
						if tc.Kind == "open" && tc.ChID == x.chid {
							r.Failf("C02", "restart-of-terminal-opens-transport", n.Name, "restarting terminated channel #%d opened a transport channel", x.idx)
						}
					}
				default:
					msgs := advMessages(r, x, x.chid.ID, n == nr.B)
					if n == nr.A {
						// the counterparty of a channel this node initiated may ask for a restart of the existing channel
						msgs = append(msgs, message.RestartExistingChannelRequest(x.chid), message.RestartExistingChannelRequest(x.chid))
					}
					msg := msgs[r.Intn(len(msgs))]
					nr.deliver(other, n, msg, false, x)
					// "incoming restart requests for it are refused": nothing is re-issued, nothing is accepted, the transport is not opened
					for _, w := range n.Wire[before.nWire:] {
						if (w.Dir == "send" || (w.Dir == "sent" && w.Carrier == "graphsync")) && w.Sum.TID == x.chid.ID && w.Sum.Restart && (w.Sum.Req || w.Sum.Accepted) {
							r.Failf("C02", "restart-of-terminal-honoured", n.Name+"|"+Summarise(msg).Kind(), "node %s, whose channel #%d is %s, answered an incoming %s with %s", n.Name, x.idx, datatransfer.Statuses[s0.Status], Summarise(msg).Kind(), w.Sum)
						}
					}
					for _, tc := range n.TpCalls[before.nTp:] {
						if tc.Kind == "open" && tc.ChID == x.chid {
							r.Failf("C02", "restart-of-terminal-honoured", n.Name+"|"+Summarise(msg).Kind()+"|transport-opened", "node %s, whose channel #%d is %s, opened a transport channel on an incoming %s", n.Name, x.idx, datatransfer.Statuses[s0.Status], Summarise(msg).Kind())
						}
					}
				}
				if now := n.Disk.rawBySuffix("/" + x.chid.String()); now != before.perChan[x.chid] {
					after, _ := n.State(x.chid)
					r.Failf("C02", "terminal-state-changed", n.Name+"|"+strings.Join(s0.Diff(after), "+"), "terminated channel #%d on node %s changed: %v -> %v", x.idx, n.Name, s0, after)
				}
				for _, e := range n.Events[before.nEv:] {
					if e.Snap.ChID == x.chid {
						r.Failf("C02", "event-after-terminal", datatransfer.Events[e.Code], "node %s announced %s for terminated channel #%d", n.Name, datatransfer.Events[e.Code], x.idx)
					}
				}
			}
		}
	}
	// ---- local role checks
	if cfg.advLocalRole {
		x := pick()
		beforeA, beforeB := nr.snapVictim(nr.A), nr.snapVictim(nr.B)
		errV := nr.B.Mgr.SendVoucher(context.Background(), x.chid, datatransfer.TypedVoucher{Voucher: basicnode.NewString("resp-voucher"), Type: "T0"})
		errR := nr.A.Mgr.SendVoucherResult(context.Background(), x.chid, datatransfer.TypedVoucher{Voucher: basicnode.NewString("init-result"), Type: "R0"})
		errU := nr.A.Mgr.UpdateValidationStatus(context.Background(), x.chid, datatransfer.ValidationResult{Accepted: true})
		nr.quiesce()
		r.Probe("adv-local-role")
		r.Probe("adv-nontrivial")
		if _, ok := nr.B.State(x.chid); ok && errV == nil {
			r.Failf("C05", "local-role", "responder-sent-voucher", "SendVoucher by the responder of channel #%d returned nil", x.idx)
		}
		if _, ok := nr.A.State(x.chid); ok && (errR == nil || errU == nil) {
			r.Failf("C05", "local-role", "initiator-sent-result-or-update", "SendVoucherResult / UpdateValidationStatus by the initiator of channel #%d returned %v / %v", x.idx, errR, errU)
		}
		for _, pr := range []struct {
			n *Node
			b victimSnap
		}{{nr.A, beforeA}, {nr.B, beforeB}} {
			if len(pr.n.Wire) != pr.b.nWire {
				r.Failf("C05", "local-role", "message-sent|"+pr.n.Name, "a voucher / result / update call by the wrong role put a message on the wire from node %s", pr.n.Name)
			}
			nr.unchanged("C05", "a local call by the wrong role", pr.n, pr.b, nil)
		}
	}
}

var _ cid.Cid
var _ datamodel.Node
