package sim

// migsim: datastores written by schema version 2 are opened by the real manager (impl.Start/OnReady,
// channels, go-ds-versioning, migrations) on SimDisk (C13). Version-2 records are produced by an encoder in
// this file that does not use the repository's migrations package.

import (
	"context"
	"fmt"
	"sort"
	"strings"
	"time"

	"github.com/ipfs/go-cid"
	"github.com/ipld/go-ipld-prime/datamodel"
	selectorparse "github.com/ipld/go-ipld-prime/traversal/selector/parse"
	"github.com/libp2p/go-libp2p/core/peer"

	datatransfer "github.com/filecoin-project/go-data-transfer/v2"
	"github.com/filecoin-project/go-data-transfer/v2/channels"

	"verif/simrt"
)

type v2Stage struct {
	name, desc       string
	created, updated int64
	logs             []v2Log
}
type v2Log struct {
	msg     string
	updated int64
}

type v2Rec struct {
	self, initiator, responder, sender, recipient peer.ID
	tid                                           uint64
	base                                          cid.Cid
	sel                                           datamodel.Node
	totalSize, queued, sent, received             uint64
	status                                        datatransfer.Status
	message                                       string
	vouchers, results                             []datatransfer.TypedVoucher
	rIdx, qIdx, sIdx                              int64
	limit                                         uint64
	reqFin                                        bool
	stages                                        []v2Stage
	nilStages                                     bool
}

func (v *v2Rec) chid() datatransfer.ChannelID {
	return datatransfer.ChannelID{Initiator: v.initiator, Responder: v.responder, ID: datatransfer.TransferID(v.tid)}
}

// encodeV2 writes the cbor-gen *map* encoding of a version-2 channel record (field names are the Go field
// names of the v2 struct; ChannelStages/ChannelStage/Log are cbor-gen tuples; times are unix nanoseconds).
func encodeV2(v *v2Rec) []byte {
	e := &refEnc{}
	cint := func(i int64) {
		if i >= 0 {
			e.uint(uint64(i))
		} else {
			e.head(1, uint64(-1-i))
		}
	}
	kvs := []refKV{
		{"SelfPeer", func() { e.text(string(v.self)) }},
		{"TransferID", func() { e.uint(v.tid) }},
		{"Initiator", func() { e.text(string(v.initiator)) }},
		{"Responder", func() { e.text(string(v.responder)) }},
		{"BaseCid", func() { e.link(v.base) }},
		{"Selector", func() { e.node(v.sel) }},
		{"Sender", func() { e.text(string(v.sender)) }},
		{"Recipient", func() { e.text(string(v.recipient)) }},
		{"TotalSize", func() { e.uint(v.totalSize) }},
		{"Status", func() { e.uint(uint64(v.status)) }},
		{"Queued", func() { e.uint(v.queued) }},
		{"Sent", func() { e.uint(v.sent) }},
		{"Received", func() { e.uint(v.received) }},
		{"Message", func() { e.text(v.message) }},
		{"Vouchers", func() {
			e.head(4, uint64(len(v.vouchers)))
			for _, x := range v.vouchers {
				x := x
				e.mapSorted([]refKV{{"Type", func() { e.text(string(x.Type)) }}, {"Voucher", func() { e.node(x.Voucher) }}})
			}
		}},
		{"VoucherResults", func() {
			e.head(4, uint64(len(v.results)))
			for _, x := range v.results {
				x := x
				e.mapSorted([]refKV{{"Type", func() { e.text(string(x.Type)) }}, {"VoucherResult", func() { e.node(x.Voucher) }}})
			}
		}},
		{"ReceivedBlocksTotal", func() { cint(v.rIdx) }},
		{"QueuedBlocksTotal", func() { cint(v.qIdx) }},
		{"SentBlocksTotal", func() { cint(v.sIdx) }},
		{"DataLimit", func() { e.uint(v.limit) }},
		{"RequiresFinalization", func() { e.boolv(v.reqFin) }},
		{"Stages", func() {
			if v.nilStages {
				e.null()
				return
			}
			e.head(4, 1)
			e.head(4, uint64(len(v.stages)))
			for _, st := range v.stages {
				e.head(4, 5)
				e.text(st.name)
				e.text(st.desc)
				cint(st.created)
				cint(st.updated)
				e.head(4, uint64(len(st.logs)))
				for _, l := range st.logs {
					e.head(4, 2)
					e.text(l.msg)
					cint(l.updated)
				}
			}
		}},
	}
	// cbor-gen map decoders accept any key order; use a tape-independent but non-sorted order
	e.head(5, uint64(len(kvs)))
	for _, kv := range kvs {
		e.text(kv.k)
		kv.v()
	}
	return e.buf.Bytes()
}

func genV2(r *RunCtx, self peer.ID, i int) *v2Rec {
	other := peer.ID(fmt.Sprintf("peer-O%d", r.Intn(3)))
	v := &v2Rec{self: self, tid: genTID(r) | 1, base: wireCids[r.Intn(len(wireCids))], sel: selectorparse.CommonSelector_ExploreAllRecursively}
	v.tid += uint64(i) * 2
	switch r.Intn(4) { // the four roles
	case 0:
		v.initiator, v.responder, v.sender, v.recipient = self, other, self, other
	case 1:
		v.initiator, v.responder, v.sender, v.recipient = self, other, other, self
	case 2:
		v.initiator, v.responder, v.sender, v.recipient = other, self, other, self
	default:
		v.initiator, v.responder, v.sender, v.recipient = other, self, self, other
	}
	if r.Intn(3) == 0 {
		v.sel = selectorparse.CommonSelector_MatchPoint
	}
	statuses := []datatransfer.Status{datatransfer.Requested, datatransfer.Ongoing, datatransfer.TransferFinished, datatransfer.ResponderCompleted, datatransfer.Finalizing,
		datatransfer.Completing, datatransfer.Completed, datatransfer.Failing, datatransfer.Failed, datatransfer.Cancelling, datatransfer.Cancelled,
		datatransfer.InitiatorPaused, datatransfer.ResponderPaused, datatransfer.BothPaused, datatransfer.ResponderFinalizing, datatransfer.ResponderFinalizingTransferFinished,
		datatransfer.Queued, datatransfer.AwaitingAcceptance}
	v.status = statuses[r.Intn(len(statuses))]
	if r.Intn(3) == 0 {
		v.status = []datatransfer.Status{datatransfer.InitiatorPaused, datatransfer.ResponderPaused, datatransfer.BothPaused}[r.Intn(3)]
	}
	big := func() uint64 {
		if r.Intn(4) == 0 {
			return genTID(r)
		}
		return uint64(r.Intn(1 << 20))
	}
	v.totalSize, v.queued, v.sent, v.received, v.limit = big(), big(), big(), big(), big()
	v.rIdx, v.qIdx, v.sIdx = int64(r.Intn(1<<20)), int64(r.Intn(1<<20)), int64(r.Intn(1<<20))
	v.reqFin = r.Intn(2) == 0
	v.message = []string{"", "some error", "data transfer disconnected: x"}[r.Intn(3)]
	for k := 0; k < 1+r.Intn(3); k++ {
		v.vouchers = append(v.vouchers, datatransfer.TypedVoucher{Voucher: genNode(r, 1), Type: datatransfer.TypeIdentifier(fmt.Sprintf("T%d", r.Intn(3)))})
	}
	for k := 0; k < r.Intn(3); k++ {
		v.results = append(v.results, datatransfer.TypedVoucher{Voucher: genNode(r, 1), Type: datatransfer.TypeIdentifier(fmt.Sprintf("R%d", r.Intn(3)))})
	}
	if r.Intn(5) == 0 {
		v.nilStages = true
	} else {
		for k := 0; k < r.Intn(4); k++ {
			st := v2Stage{name: []string{"Requested", "Ongoing", "Completing", "InitiatorPaused"}[r.Intn(4)], desc: "", created: int64(946684800e9) + int64(r.Intn(1000)), updated: int64(946684800e9) + int64(r.Intn(100000))}
			for j := 0; j < r.Intn(3); j++ {
				st.logs = append(st.logs, v2Log{msg: fmt.Sprintf("log %d", r.Intn(100)), updated: st.updated})
			}
			v.stages = append(v.stages, st)
		}
	}
	return v
}

func stagesString(st datatransfer.ChannelState) string {
	sg := st.Stages()
	if sg == nil {
		return "<nil>"
	}
	var parts []string
	for _, s := range sg.Stages {
		var logs []string
		for _, l := range s.Logs {
			logs = append(logs, fmt.Sprintf("%s@%d", l.Log, l.UpdatedTime.Time().UnixNano()))
		}
		parts = append(parts, fmt.Sprintf("%s|%s|%d|%d|%s", s.Name, s.Description, s.CreatedTime.Time().UnixNano(), s.UpdatedTime.Time().UnixNano(), strings.Join(logs, ",")))
	}
	return strings.Join(parts, ";")
}

func (v *v2Rec) stagesString() string {
	if v.nilStages {
		return ""
	}
	var parts []string
	for _, s := range v.stages {
		var logs []string
		for _, l := range s.logs {
			logs = append(logs, fmt.Sprintf("%s@%d", l.msg, l.updated))
		}
		parts = append(parts, fmt.Sprintf("%s|%s|%d|%d|%s", s.name, s.desc, s.created, s.updated, strings.Join(logs, ",")))
	}
	return strings.Join(parts, ";")
}

func migScenario(r *RunCtx) {
	w := r.W
	n := w.NewNode(r, "A", NodeCfg{Types: []datatransfer.TypeIdentifier{"T0"}})
	n.ValNew = func(string, datatransfer.ChannelID) (datatransfer.ValidationResult, error) {
		return datatransfer.ValidationResult{Accepted: true}, nil
	}
	n.ValRest = func(datatransfer.ChannelID, datatransfer.ChannelState) (datatransfer.ValidationResult, error) {
		return datatransfer.ValidationResult{Accepted: true}, nil
	}
	peerB := w.NewNode(r, "B", NodeCfg{})
	_ = peerB
	nrec := r.Intn(9)
	recs := map[datatransfer.ChannelID]*v2Rec{}
	for i := 0; i < nrec; i++ {
		v := genV2(r, n.ID, i)
		if _, dup := recs[v.chid()]; dup {
			continue
		}
		recs[v.chid()] = v
		_ = n.Disk.Put(context.Background(), dsKey("/2/"+v.chid().String()), encodeV2(v))
	}
	_ = n.Disk.Put(context.Background(), dsKey("/versions/current"), []byte("2"))
	n.Disk.Log = nil // the pre-existing store is not part of this process' write history
	n.Disk.YieldOps = true
	// the migration's last write is the version key; until it happened the store is un-migrated
	versionWritten := false
	disk0 := n.Disk
	disk0.OnCommit = func(cnt int) {
		for _, op := range disk0.Log[cnt-1].Ops {
			if op.Key == "/versions/current" && string(op.Value) == "3" {
				versionWritten = true
			}
		}
	}

	// --- start with listeners registered before Start and operations racing the migration
	readyCalls := make([]int, 3)
	var readyErrs []error
	var earlyOps []*Call
	ready := false
	_ = ready
	n.PreStart = func(m datatransfer.Manager) {
		for i := range readyCalls {
			i := i
			m.OnReady(func(err error) {
				readyCalls[i]++
				readyErrs = append(readyErrs, err)
				ready = true
			})
		}
	}
	var chids []datatransfer.ChannelID
	for id := range recs {
		chids = append(chids, id)
	}
	sort.Slice(chids, func(i, j int) bool { return chids[i].String() < chids[j].String() })
	type early struct {
		name         string
		err          error
		beforeReady  bool
		returnedNil  bool
		writesBefore int
	}
	var earlies []*early
	touched := map[datatransfer.ChannelID]bool{}
	n.PostStart = func(m datatransfer.Manager) {
		// issued right after Start returned: the migration runs concurrently
		for k := 0; k < 2+r.Intn(5); k++ {
			kind := r.Intn(7)
			var id datatransfer.ChannelID
			if len(chids) > 0 {
				id = chids[r.Intn(len(chids))]
			}
			delay := r.Intn(12)
			if kind >= 3 {
				touched[id] = true // may legitimately change the channel once the store is ready
			}
			ev := &early{}
			earlies = append(earlies, ev)
			c := r.OpE("A", "early-op", func() error {
				yieldN(delay)
				ev.beforeReady = !versionWritten
				var err error
				switch kind {
				case 0:
					ev.name = "InProgressChannels"
					_, err = m.InProgressChannels(context.Background())
				case 1:
					ev.name = "ChannelState"
					_, err = m.ChannelState(context.Background(), id)
				case 2:
					ev.name = "OpenPushDataChannel"
					_, err = m.OpenPushDataChannel(context.Background(), peerB.ID, datatransfer.TypedVoucher{Voucher: genNode(r, 1), Type: "T0"}, fixedCid, selectorparse.CommonSelector_ExploreAllRecursively)
				case 3:
					ev.name = "CloseDataTransferChannel"
					err = m.CloseDataTransferChannel(context.Background(), id)
				case 4:
					ev.name = "RestartDataTransferChannel"
					err = m.RestartDataTransferChannel(context.Background(), id)
				case 5:
					ev.name = "PauseDataTransferChannel"
					err = m.PauseDataTransferChannel(context.Background(), id)
				default:
					ev.name = "SendVoucher"
					err = m.SendVoucher(context.Background(), id, datatransfer.TypedVoucher{Voucher: genNode(r, 1), Type: "T0"})
				}
				ev.err = err
				// an operation that ran entirely before readiness must have been refused
				if ev.beforeReady && !versionWritten && err == nil {
					ev.returnedNil = true
				}
				return err
			})
			earlyOps = append(earlyOps, c)
		}
	}
	if !peerB.Start() {
		return
	}
	if !n.Start() {
		return
	}
	simrt.Sleep(time.Minute)
	n.Disk.YieldOps = false
	for _, ev := range earlies {
		if ev.beforeReady {
			r.Probe("op-before-ready")
		}
		if ev.returnedNil {
			r.Failf("C13", "operation-before-migration-accepted", ev.name, "%s issued and completed before the migration had finished returned nil instead of refusing", ev.name)
		}
	}
	for i, c := range readyCalls {
		if c != 1 {
			r.Failf("C13", "readiness-announced-wrong-count", fmt.Sprint(c), "ready listener %d registered before Start was called %d times", i, c)
		}
	}
	for _, e := range readyErrs {
		if e != nil {
			r.Failf("C13", "migration-failed", "", "migration of well-formed version-2 records reported %v", e)
			return
		}
	}
	// --- every stored channel is presented with all fields preserved
	m, err := n.Mgr.InProgressChannels(context.Background())
	if err != nil {
		r.Failf("C13", "list-after-migration", "", "InProgressChannels after migration: %v", err)
		return
	}
	created := 0
	for _, id := range sortedBy(m, chidStr) {
		st := m[id]
		v := recs[id]
		if v == nil {
			created++ // channel opened by an early op after readiness
			continue
		}
		s := TakeSnap(r, "InProgressChannels-after-migration", st)
		if touched[id] {
			continue
		}
		wantStatus, wantIP, wantRP := v.status, false, false
		switch v.status {
		case datatransfer.InitiatorPaused:
			wantStatus, wantIP = datatransfer.Ongoing, true
		case datatransfer.ResponderPaused:
			wantStatus, wantRP = datatransfer.Ongoing, true
		case datatransfer.BothPaused:
			wantStatus, wantIP, wantRP = datatransfer.Ongoing, true, true
		}
		if wantStatus == datatransfer.Finalizing {
			wantRP = true // view: a finalizing responder counts as paused
		}
		bad := func(field string, got, want any) {
			r.Failf("C13", "field-not-preserved", field, "channel %v (v2 status %s): %s is %v after migration, stored value %v", id, datatransfer.Statuses[v.status], field, got, want)
		}
		if s.Status != wantStatus {
			bad("Status", datatransfer.Statuses[s.Status], datatransfer.Statuses[wantStatus])
		}
		if s.IPaused != wantIP {
			bad("InitiatorPaused", s.IPaused, wantIP)
		}
		if s.RPaused != wantRP {
			bad("ResponderPaused", s.RPaused, wantRP)
		}
		if s.Self != string(v.self) || s.Sender != string(v.sender) || s.Recipient != string(v.recipient) || s.ChID != v.chid() {
			bad("peers/id", fmt.Sprint(s.Self, s.Sender, s.Recipient, s.ChID), fmt.Sprint(v.self, v.sender, v.recipient, v.chid()))
		}
		if s.BaseCid != v.base.String() {
			bad("BaseCID", s.BaseCid, v.base)
		}
		if s.Selector != encNode(v.sel) {
			bad("Selector", s.Selector, encNode(v.sel))
		}
		if s.TotalSize != v.totalSize || s.Queued != v.queued || s.Sent != v.sent || s.Received != v.received {
			bad("totals", fmt.Sprint(s.TotalSize, s.Queued, s.Sent, s.Received), fmt.Sprint(v.totalSize, v.queued, v.sent, v.received))
		}
		if s.RIdx != v.rIdx || s.QIdx != v.qIdx || s.SIdx != v.sIdx {
			bad("block-indexes", fmt.Sprint(s.RIdx, s.QIdx, s.SIdx), fmt.Sprint(v.rIdx, v.qIdx, v.sIdx))
		}
		if s.Message != v.message {
			bad("Message", s.Message, v.message)
		}
		if s.Limit != v.limit || s.ReqFin != v.reqFin {
			bad("limit/finalization", fmt.Sprint(s.Limit, s.ReqFin), fmt.Sprint(v.limit, v.reqFin))
		}
		var wv, wr []string
		for _, x := range v.vouchers {
			wv = append(wv, encTV(x))
		}
		for _, x := range v.results {
			wr = append(wr, encTV(x))
		}
		if strings.Join(s.Vouchers, ",") != strings.Join(wv, ",") {
			bad("Vouchers", s.Vouchers, wv)
		}
		if strings.Join(s.Results, ",") != strings.Join(wr, ",") {
			bad("VoucherResults", s.Results, wr)
		}
		if got := stagesString(st); got != v.stagesString() {
			bad("Stages", got, v.stagesString())
		}
		r.Probe("migrated-channel-checked")
		if v.status == datatransfer.InitiatorPaused || v.status == datatransfer.ResponderPaused || v.status == datatransfer.BothPaused {
			r.Probe("deprecated-status-migrated")
		}
	}
	if len(m)-created != len(recs) {
		r.Failf("C13", "channel-count", fmt.Sprintf("stored=%d listed=%d", len(recs), len(m)-created), "%d version-2 channels were stored, %d are listed after migration", len(recs), len(m)-created)
	}
	// no version-2 key survives; version key says 3
	for _, k := range sortedKeys(n.Disk.m) {
		if strings.HasPrefix(k, "/2/") {
			r.Failf("C13", "old-key-left", "", "after migration the datastore still holds %s", k)
		}
	}
	if string(n.Disk.m["/versions/current"]) != "3" {
		r.Failf("C13", "version-key", string(n.Disk.m["/versions/current"]), "version key is %q after migration", n.Disk.m["/versions/current"])
	}
	// --- starting again on the migrated store changes nothing
	_ = n.Mgr.Stop(context.Background())
	WaitQuiet()
	before := n.Disk.dump("/3/") + n.Disk.dump("/versions/")
	for k := 0; k < 1+r.Intn(2); k++ {
		n.life++
		n.Host.Kill()
		w.GS.Kill(n.ID)
		n.PreStart, n.PostStart = nil, nil
		if !n.Start() {
			return
		}
		simrt.Sleep(time.Second)
		if _, err := n.Mgr.InProgressChannels(context.Background()); err != nil {
			r.Failf("C13", "restart-on-migrated-store", "", "second start on the migrated store: %v", err)
		}
		_ = n.Mgr.Stop(context.Background())
		WaitQuiet()
		if after := n.Disk.dump("/3/") + n.Disk.dump("/versions/"); after != before {
			r.Failf("C13", "restart-changed-store", "", "starting again on an already migrated store changed bytes under /3 or the version key")
		}
		r.Probe("second-start")
	}
	// --- migrated non-terminal channels accept further events and persist like native ones
	fw := &fsmWorld{r: r, self: n.ID, other: peer.ID("peer-O0"), disk: n.Disk, nextTID: 1}
	fw.open()
	if r.HarnessErr != "" {
		return
	}
	for _, id := range chids {
		v := recs[id]
		st, err := fw.cs.GetByID(context.Background(), id)
		if err != nil {
			r.Failf("C13", "migrated-channel-unreadable", "", "GetByID of migrated channel %v: %v", id, err)
			continue
		}
		s0 := TakeSnap(r, "GetByID-migrated", st)
		if isTerminal(s0.Status) {
			continue
		}
		tv := datatransfer.TypedVoucher{Voucher: genNode(r, 1), Type: "TX"}
		if err := fw.cs.NewVoucher(id, tv); err != nil {
			r.Failf("C13", "migrated-channel-rejects-events", datatransfer.Statuses[v.status], "NewVoucher on migrated channel (v2 status %s) failed: %v", datatransfer.Statuses[v.status], err)
			continue
		}
		simrt.Sleep(time.Millisecond)
		announced := false
		for _, e := range fw.evs {
			if e.chid == id && e.code == datatransfer.NewVoucher {
				announced = true
			}
		}
		states, ok := fw.probeOpen(fw.disk.Reopen(len(fw.disk.Log)))
		if !ok {
			return
		}
		s1 := states[id]
		if !announced || len(s1.Vouchers) != len(s0.Vouchers)+1 || s1.Vouchers[len(s1.Vouchers)-1] != encTV(tv) {
			r.Failf("C13", "migrated-channel-event-not-persisted", datatransfer.Statuses[v.status], "NewVoucher on migrated channel: announced=%v, durable vouchers %d -> %d", announced, len(s0.Vouchers), len(s1.Vouchers))
		}
		r.Probe("migrated-channel-accepts-events")
	}
	_ = fw.cs.Stop(context.Background())
	r.Probe("nontrivial")
	r.Sample["v2_records"] = len(recs)
	r.Sample["early_ops"] = len(earlies)
	var sts []string
	for _, id := range chids {
		sts = append(sts, datatransfer.Statuses[recs[id].status])
	}
	r.Sample["v2_statuses"] = sts
}

// migFaultScenario: a disk I/O fault (1-3 failing operations, or a disk that stays broken) hits the k-th datastore
// operation of the start-up. Whatever the migration makes of it, readiness must be announced exactly once per
// listener and must tell the truth: nil only if the store is migrated and usable, an error otherwise - and then
// channel operations are refused.
func migFaultScenario(r *RunCtx) {
	w := r.W
	n := w.NewNode(r, "A", NodeCfg{Types: []datatransfer.TypeIdentifier{"T0"}, AllowReadyErr: true})
	n.ValNew = func(string, datatransfer.ChannelID) (datatransfer.ValidationResult, error) {
		return datatransfer.ValidationResult{Accepted: true}, nil
	}
	n.ValRest = func(datatransfer.ChannelID, datatransfer.ChannelState) (datatransfer.ValidationResult, error) {
		return datatransfer.ValidationResult{Accepted: true}, nil
	}
	_ = w.NewNode(r, "B", NodeCfg{})
	nrec := 1 + r.Intn(6)
	recs := map[datatransfer.ChannelID]*v2Rec{}
	for i := 0; i < nrec; i++ {
		v := genV2(r, n.ID, i)
		if _, dup := recs[v.chid()]; dup {
			continue
		}
		recs[v.chid()] = v
		_ = n.Disk.Put(context.Background(), dsKey("/2/"+v.chid().String()), encodeV2(v))
	}
	_ = n.Disk.Put(context.Background(), dsKey("/versions/current"), []byte("2"))
	n.Disk.Log = nil
	n.Disk.FailAt = 1 + r.Intn(6+6*len(recs))
	n.Disk.FailLen = []int{1, 1, 2, 3, 1 << 30}[r.Intn(5)]
	readyCalls := make([]int, 3)
	var outcomes []error
	n.PreStart = func(m datatransfer.Manager) {
		for i := range readyCalls {
			i := i
			m.OnReady(func(err error) {
				readyCalls[i]++
				outcomes = append(outcomes, err)
			})
		}
	}
	if !n.Start() {
		return
	}
	WaitQuiet()
	fired := n.Disk.FaultsFired
	n.Disk.FailAt = 0 // the disk works again: what follows judges the announced outcome, not new faults
	if fired > 0 {
		r.Fault("disk-io-error-during-startup")
	}
	for i, c := range readyCalls {
		if c != 1 && !n.ReadyNever {
			r.Failf("C13", "readiness-announced-wrong-count", fmt.Sprint(c), "ready listener %d registered before Start was called %d times (disk fault at operation %d)", i, c, n.Disk.FailAt)
		}
	}
	for _, e := range outcomes {
		if (e == nil) != (outcomes[0] == nil) {
			r.Failf("C13", "readiness-outcomes-differ", "", "listeners were told different migration outcomes: %v", outcomes)
		}
	}
	if n.ReadyNever || len(outcomes) == 0 {
		r.Failf("C13", "readiness-never-announced", fmt.Sprintf("fault-fired=%v", fired > 0), "ten simulated minutes after Start no listener registered before Start has been told the outcome of the migration (disk faults fired: %d)", fired)
		return
	}
	m, lerr := n.Mgr.InProgressChannels(context.Background())
	migrated := string(n.Disk.m["/versions/current"]) == "3"
	if outcomes[0] == nil {
		r.Probe("fault-survived-or-missed")
		if !migrated || lerr != nil || len(m) != len(recs) {
			r.Failf("C13", "readiness-nil-but-store-not-migrated", fmt.Sprintf("version=%s", n.Disk.m["/versions/current"]), "readiness was announced with a nil outcome after a disk fault, yet the store is not usable: version key %q, InProgressChannels -> %d channels, err %v (expected %d)", n.Disk.m["/versions/current"], len(m), lerr, len(recs))
		}
		return
	}
	r.Probe("migration-failed-and-said-so")
	if lerr == nil {
		r.Failf("C13", "operation-after-failed-migration-accepted", "InProgressChannels", "the migration outcome was %v, yet InProgressChannels returned %d channels instead of refusing", outcomes[0], len(m))
	}
	if _, err := n.Mgr.ChannelState(context.Background(), sortedBy(recs, chidStr)[0]); err == nil {
		r.Failf("C13", "operation-after-failed-migration-accepted", "ChannelState", "the migration outcome was %v, yet ChannelState answered instead of refusing", outcomes[0])
	}
}

func init() {
	Register("C13", Stratum{Name: "migration-2-to-3", Weight: 3, Fn: migScenario, MaxSteps: 300_000, Horizon: time.Hour},
		Stratum{Name: "migration-with-disk-io-fault", Weight: 1, Fn: migFaultScenario, MaxSteps: 300_000, Horizon: time.Hour})
}

var _ = channels.IsChannelTerminated
