package sim

// fsmsim: the real channels.Channels (+ go-statemachine, go-statestore, go-ds-versioning) on SimDisk,
// driven directly through the Channels API with a recording ChannelEnvironment and notifier.

import (
	"context"
	"errors"
	"fmt"
	"strings"
	"time"

	"github.com/ipfs/go-cid"
	"github.com/ipld/go-ipld-prime"
	"github.com/ipld/go-ipld-prime/datamodel"
	"github.com/ipld/go-ipld-prime/node/basicnode"
	"github.com/ipld/go-ipld-prime/node/bindnode"
	"github.com/ipld/go-ipld-prime/schema"
	selectorparse "github.com/ipld/go-ipld-prime/traversal/selector/parse"
	"github.com/libp2p/go-libp2p/core/peer"

	datatransfer "github.com/filecoin-project/go-data-transfer/v2"
	"github.com/filecoin-project/go-data-transfer/v2/channels"

	"verif/simrt"
)

type envCall struct {
	kind string // "cleanup", "protect", "unprotect"
	chid datatransfer.ChannelID
	tag  string
	peer peer.ID
	step int
	nev  int // number of events announced for that channel when the call happened
	life int
}

type recEnv struct {
	fw   *fsmWorld
	life int
}

func (e *recEnv) Protect(id peer.ID, tag string) {
	if e.life != e.fw.life {
		return
	}
	e.fw.envCalls = append(e.fw.envCalls, envCall{kind: "protect", tag: tag, peer: id, step: e.fw.r.S.Steps, life: e.fw.life})
}
func (e *recEnv) Unprotect(id peer.ID, tag string) bool {
	if e.life != e.fw.life {
		return false
	}
	e.fw.envCalls = append(e.fw.envCalls, envCall{kind: "unprotect", tag: tag, peer: id, step: e.fw.r.S.Steps, life: e.fw.life})
	return false
}
func (e *recEnv) ID() peer.ID { return e.fw.self }
func (e *recEnv) CleanupChannel(chid datatransfer.ChannelID) {
	if e.life != e.fw.life {
		return
	}
	n := 0
	for _, ev := range e.fw.evs {
		if ev.chid == chid {
			n++
		}
	}
	e.fw.envCalls = append(e.fw.envCalls, envCall{kind: "cleanup", chid: chid, step: e.fw.r.S.Steps, nev: n, life: e.fw.life})
}

type evRec struct {
	chid    datatransfer.ChannelID
	code    datatransfer.EventCode
	snap    Snap
	step    int
	diskLen int
	life    int
}

const (
	roleInitPush = iota
	roleInitPull
	roleRespPush
	roleRespPull
)

var roleNames = []string{"init-push", "init-pull", "resp-push", "resp-pull"}

type sentOp struct {
	kind    opKind
	err     error
	life    int
	nevSent int // index in fw.evs at the time of sending
}

type fsmChan struct {
	chid    datatransfer.ChannelID
	role    int
	voucher datatransfer.TypedVoucher
	root    cid.Cid
	sel     datamodel.Node
	created Snap
	base    Snap // state at the start of the current life (== created in life 0)
	sent    []sentOp
	lost    bool // creation was not durable at a crash point
	// data model (C07/C08), maintained by the scenario when it drives reports sequentially
	createDiskLen int
}

func (c *fsmChan) selfIsInitiator() bool { return c.role == roleInitPush || c.role == roleInitPull }

type fsmWorld struct {
	roleConsistent bool // the histories of this run only contain events the channel's role can receive
	r        *RunCtx
	self     peer.ID
	other    peer.ID
	disk     *Disk
	cs       *channels.Channels
	evs      []*evRec
	envCalls []envCall
	chans    []*fsmChan
	life     int
	lifeStartDisk int
	nextTID  uint64
	totalEvs int
	crashed  bool // the life being judged ended by a crash (in-flight events may be lost)
}

func newFsmWorld(r *RunCtx) *fsmWorld {
	fw := &fsmWorld{r: r, self: peer.ID("peer-A"), other: peer.ID("peer-B"), disk: NewDisk(), nextTID: 1000}
	fw.open()
	return fw
}

func (fw *fsmWorld) open() {
	life := fw.life
	cs, err := channels.New(fw.disk, func(evt datatransfer.Event, st datatransfer.ChannelState) {
		if life == fw.life {
			fw.notify(evt, st)
		}
	}, &recEnv{fw, life}, fw.self)
	if err != nil {
		fw.r.HarnessErr = "channels.New: " + err.Error()
		return
	}
	if err := cs.Start(context.Background()); err != nil {
		fw.r.HarnessErr = "channels.Start: " + err.Error()
		return
	}
	fw.cs = cs
}

func (fw *fsmWorld) notify(evt datatransfer.Event, st datatransfer.ChannelState) {
	snap := TakeSnap(fw.r, "notifier", st)
	fw.evs = append(fw.evs, &evRec{chid: snap.ChID, code: evt.Code, snap: snap, step: fw.r.S.Steps, diskLen: len(fw.disk.Log), life: fw.life})
}

// reopen stops the current instance (clean) or abandons it (crash at log prefix n) and starts a new one.
// All history oracles are per life: they are evaluated for the ending life, then the recorded history is
// cleared and every channel's base snapshot becomes the state found after reopening.
func (fw *fsmWorld) reopen(crashAt int, roleConsistent bool) {
	if crashAt < 0 {
		WaitQuiet()
		_ = fw.cs.Stop(context.Background())
		WaitQuiet()
		fw.historyOracles(roleConsistent)
		crashAt = len(fw.disk.Log)
		fw.checkBoundary(crashAt, nil)
		fw.disk = fw.disk.Reopen(crashAt)
	} else {
		// crash at write boundary crashAt: first let everything in flight finish so that the set of states that
		// were ever current is complete (a state can be durable before it is announced), then cut the log.
		WaitQuiet()
		_ = fw.cs.Stop(context.Background())
		WaitQuiet()
		if crashAt > len(fw.disk.Log) {
			crashAt = len(fw.disk.Log)
		}
		fw.historyOracles(roleConsistent)
		fw.checkBoundary(crashAt, nil)
		fw.disk = fw.disk.Reopen(crashAt)
	}
	fw.life++
	fw.totalEvs += len(fw.evs)
	fw.evs = nil
	fw.envCalls = nil
	fw.lifeStartDisk = len(fw.disk.Log)
	fw.open()
	if fw.r.HarnessErr != "" {
		return
	}
	for _, c := range fw.chans {
		c.sent = nil
		if c.lost {
			continue
		}
		s, err := fw.get(c, "GetByID-after-reopen")
		if err != nil {
			c.lost = true // not durable at the crash point (checkBoundary verified the set)
			continue
		}
		c.base = s
	}
}

var fixedCid = mustCid("bafyreigh2akiscaildcqabsyg3dfr6chu3fgpregiymsck7e7aqa4s52zy")

func mustCid(s string) cid.Cid {
	c, err := cid.Decode(s)
	if err != nil {
		panic(err)
	}
	return c
}

func (fw *fsmWorld) create(role int) *fsmChan {
	r := fw.r
	fw.nextTID += uint64(1 + r.Intn(3))
	tid := datatransfer.TransferID(fw.nextTID)
	var initiator, sender, receiver peer.ID
	switch role {
	case roleInitPush:
		initiator, sender, receiver = fw.self, fw.self, fw.other
	case roleInitPull:
		initiator, sender, receiver = fw.self, fw.other, fw.self
	case roleRespPush:
		initiator, sender, receiver = fw.other, fw.other, fw.self
	case roleRespPull:
		initiator, sender, receiver = fw.other, fw.self, fw.other
	}
	v := datatransfer.TypedVoucher{Voucher: genNode(r, 2), Type: datatransfer.TypeIdentifier(fmt.Sprintf("T%d", r.Intn(3)))}
	c := &fsmChan{role: role, voucher: v, root: fixedCid, sel: selectorparse.CommonSelector_ExploreAllRecursively, createDiskLen: len(fw.disk.Log)}
	chid, err := fw.cs.CreateNew(fw.self, tid, c.root, c.sel, v, initiator, sender, receiver)
	if err != nil {
		r.HarnessErr = "CreateNew: " + err.Error()
		return nil
	}
	c.chid = chid
	st, err := fw.cs.GetByID(context.Background(), chid)
	if err != nil {
		r.Fail("C06", "created-not-readable", "GetByID", "GetByID right after CreateNew failed: "+err.Error())
		return nil
	}
	c.created = TakeSnap(r, "GetByID", st)
	c.base = c.created
	// creation consistency (C19)
	wantResp := receiver
	if sender != initiator {
		wantResp = sender
	}
	if c.created.ChID != (datatransfer.ChannelID{Initiator: initiator, Responder: wantResp, ID: tid}) {
		r.Failf("C19", "created-view", "ChannelID", "channel created as (init %s, sender %s, receiver %s, id %d) reports ChannelID %v", initiator, sender, receiver, tid, c.created.ChID)
	}
	if c.created.Voucher0 != encTV(v) || c.created.Self != string(fw.self) || c.created.Other != string(fw.other) || c.created.IsPull != (initiator == receiver) {
		r.Failf("C19", "created-view", "fields", "created channel views disagree with creation arguments: %+v", c.created)
	}
	fw.chans = append(fw.chans, c)
	return c
}

// typed (schema-bound) values whose representation differs from their type-level view: applications hand
// such nodes to the library as vouchers (bindnode/codegen types), and what must be stored and sent is the
// representation.
type dealVoucher struct {
	Deal   string
	Amount int64
	Paid   bool
}

var dealVoucherType = func() schema.Type {
	ts, err := ipld.LoadSchemaBytes([]byte(`type DealVoucher struct {
		Deal String
		Amount Int
		Paid Bool
	} representation tuple`))
	if err != nil {
		panic(err)
	}
	return ts.TypeByName("DealVoucher")
}()

var renamedVoucherType = func() schema.Type {
	ts, err := ipld.LoadSchemaBytes([]byte(`type RenamedVoucher struct {
		Deal String (rename "d")
		Amount Int (rename "a")
		Paid Bool (rename "p")
	}`))
	if err != nil {
		panic(err)
	}
	return ts.TypeByName("RenamedVoucher")
}()

func genTypedNode(r *RunCtx) datamodel.Node {
	v := &dealVoucher{Deal: fmt.Sprintf("deal-%d", r.Intn(50)), Amount: int64(r.Intn(1000)), Paid: r.Intn(2) == 0}
	if r.Intn(2) == 0 {
		return bindnode.Wrap(v, dealVoucherType)
	}
	return bindnode.Wrap(v, renamedVoucherType)
}

// genNode builds a small IPLD value from the tape.
func genNode(r *RunCtx, depth int) datamodel.Node {
	if depth >= 2 && r.Intn(5) == 0 {
		return genTypedNode(r)
	}
	switch k := r.Intn(6); {
	case k == 0:
		return basicnode.NewInt(int64(r.Intn(1000)) - 500)
	case k == 1:
		return basicnode.NewString(fmt.Sprintf("s%d", r.Intn(100)))
	case k == 2:
		return basicnode.NewBytes([]byte{byte(r.Intn(256)), byte(r.Intn(256))})
	case k == 3:
		return basicnode.NewBool(r.Intn(2) == 0)
	case k == 4 && depth > 0:
		n := 1 + r.Intn(3)
		nb := basicnode.Prototype.List.NewBuilder()
		la, _ := nb.BeginList(int64(n))
		for i := 0; i < n; i++ {
			_ = la.AssembleValue().AssignNode(genNode(r, depth-1))
		}
		_ = la.Finish()
		return nb.Build()
	case depth > 0:
		n := 1 + r.Intn(3)
		nb := basicnode.Prototype.Map.NewBuilder()
		ma, _ := nb.BeginMap(int64(n))
		// keys deliberately not in canonical order
		for i := n - 1; i >= 0; i-- {
			_ = ma.AssembleKey().AssignString(fmt.Sprintf("k%c%d", 'z'-byte(i), i))
			_ = ma.AssembleValue().AssignNode(genNode(r, depth-1))
		}
		_ = ma.Finish()
		return nb.Build()
	}
	return basicnode.NewString("leaf")
}

// ---------------------------------------------------------------- operations

type opKind int

const (
	opOpen opKind = iota
	opAccept
	opOpened
	opTransferInitiated
	opRestart
	opCCOR
	opDataSent
	opDataQueued
	opDataReceived
	opPauseI
	opPauseR
	opResumeI
	opResumeR
	opNewVoucher
	opNewVoucherResult
	opComplete
	opFinishTransfer
	opResponderCompletes
	opRespBeginsFinal
	opBeginFinalizing
	opCancel
	opError
	opDisconnected
	opRequestCancelled
	opSendDataError
	opReceiveDataError
	opSetDataLimit
	opSetReqFin
	nOpKinds
)

var opCode = map[opKind]datatransfer.EventCode{
	opOpen: datatransfer.Open, opAccept: datatransfer.Accept, opOpened: datatransfer.Opened, opTransferInitiated: datatransfer.TransferInitiated,
	opRestart: datatransfer.Restart, opCCOR: datatransfer.CompleteCleanupOnRestart, opDataSent: datatransfer.DataSent, opDataQueued: datatransfer.DataQueued,
	opDataReceived: datatransfer.DataReceived, opPauseI: datatransfer.PauseInitiator, opPauseR: datatransfer.PauseResponder, opResumeI: datatransfer.ResumeInitiator,
	opResumeR: datatransfer.ResumeResponder, opNewVoucher: datatransfer.NewVoucher, opNewVoucherResult: datatransfer.NewVoucherResult, opComplete: datatransfer.Complete,
	opFinishTransfer: datatransfer.FinishTransfer, opResponderCompletes: datatransfer.ResponderCompletes, opRespBeginsFinal: datatransfer.ResponderBeginsFinalization,
	opBeginFinalizing: datatransfer.BeginFinalizing, opCancel: datatransfer.Cancel, opError: datatransfer.Error, opDisconnected: datatransfer.Disconnected,
	opRequestCancelled: datatransfer.RequestCancelled, opSendDataError: datatransfer.SendDataError, opReceiveDataError: datatransfer.ReceiveDataError,
	opSetDataLimit: datatransfer.SetDataLimit, opSetReqFin: datatransfer.SetRequiresFinalization,
}

var opNames = map[opKind]string{}

func init() {
	for k, c := range opCode {
		opNames[k] = datatransfer.Events[c]
	}
}

type opArgs struct {
	delta  uint64
	index  int64
	unique bool
	limit  uint64
	flag   bool
	tv     datatransfer.TypedVoucher
	msg    string
}

func (fw *fsmWorld) apply(c *fsmChan, k opKind, a opArgs) error {
	cs := fw.cs
	id := c.chid
	var err error
	nev := len(fw.evs)
	switch k {
	case opOpen:
		err = cs.Open(id)
	case opAccept:
		err = cs.Accept(id)
	case opOpened:
		err = cs.ChannelOpened(id)
	case opTransferInitiated:
		err = cs.TransferInitiated(id)
	case opRestart:
		err = cs.Restart(id)
	case opCCOR:
		err = cs.CompleteCleanupOnRestart(id)
	case opDataSent:
		err = cs.DataSent(id, fixedCid, a.delta, a.index, a.unique)
	case opDataQueued:
		err = cs.DataQueued(id, fixedCid, a.delta, a.index, a.unique)
	case opDataReceived:
		err = cs.DataReceived(id, fixedCid, a.delta, a.index, a.unique)
	case opPauseI:
		err = cs.PauseInitiator(id)
	case opPauseR:
		err = cs.PauseResponder(id)
	case opResumeI:
		// a party whose own transfer is still in progress can always clear its own pause flag (C11)
		pre, preErr := fw.get(c, "GetByID")
		err = cs.ResumeInitiator(id)
		if preErr == nil && err == nil && pre.IPaused && pre.Status.Transferring() {
			if post, e2 := fw.get(c, "GetByID"); e2 == nil && post.IPaused && post.Status == pre.Status {
				fw.r.Failf("C11", "resume-ignored-while-transferring", datatransfer.Statuses[pre.Status], "channel %d (%s): the initiator is paused and the channel is %s (data still moving), yet ResumeInitiator left InitiatorPaused set", c.chid.ID, roleNames[c.role], datatransfer.Statuses[pre.Status])
			}
			fw.r.Probe("resume-while-transferring")
		}
	case opResumeR:
		err = cs.ResumeResponder(id)
	case opNewVoucher:
		err = cs.NewVoucher(id, a.tv)
	case opNewVoucherResult:
		err = cs.NewVoucherResult(id, a.tv)
	case opComplete:
		err = cs.Complete(id)
	case opFinishTransfer:
		err = cs.FinishTransfer(id)
	case opResponderCompletes:
		err = cs.ResponderCompletes(id)
	case opRespBeginsFinal:
		err = cs.ResponderBeginsFinalization(id)
	case opBeginFinalizing:
		err = cs.BeginFinalizing(id)
	case opCancel:
		err = cs.Cancel(id)
	case opError:
		err = cs.Error(id, errors.New(a.msg))
	case opDisconnected:
		err = cs.Disconnected(id, errors.New(a.msg))
	case opRequestCancelled:
		err = cs.RequestCancelled(id, errors.New(a.msg))
	case opSendDataError:
		err = cs.SendDataError(id, errors.New(a.msg))
	case opReceiveDataError:
		err = cs.ReceiveDataError(id, errors.New(a.msg))
	case opSetDataLimit:
		err = cs.SetDataLimit(id, a.limit)
	case opSetReqFin:
		err = cs.SetRequiresFinalization(id, a.flag)
	}
	c.sent = append(c.sent, sentOp{kind: k, err: err, life: fw.life, nevSent: nev})
	if LogAll {
		fw.r.W.Logf("op %s on %d (%s) args=%+v -> %v", opNames[k], c.chid.ID, roleNames[c.role], a, err)
	}
	return err
}

func (fw *fsmWorld) genArgs(k opKind) opArgs {
	r := fw.r
	a := opArgs{msg: fmt.Sprintf("e%d", r.Intn(5))}
	switch k {
	case opDataSent, opDataQueued, opDataReceived:
		a.delta = uint64(1 + r.Intn(500))
		a.index = int64(1 + r.Intn(12))
		a.unique = r.Intn(4) != 0
	case opSetDataLimit:
		a.limit = uint64(r.Intn(3000))
	case opSetReqFin:
		a.flag = r.Intn(2) == 0
	case opNewVoucher, opNewVoucherResult:
		a.tv = datatransfer.TypedVoucher{Voucher: genNode(r, 2), Type: datatransfer.TypeIdentifier(fmt.Sprintf("V%d", r.Intn(3)))}
	}
	return a
}

// eventsOf returns the announced events of a channel, in order.
func (fw *fsmWorld) eventsOf(chid datatransfer.ChannelID) []*evRec {
	var out []*evRec
	for _, e := range fw.evs {
		if e.chid == chid {
			out = append(out, e)
		}
	}
	return out
}

func (fw *fsmWorld) get(c *fsmChan, where string) (Snap, error) {
	st, err := fw.cs.GetByID(context.Background(), c.chid)
	if err != nil {
		return Snap{}, err
	}
	return TakeSnap(fw.r, where, st), nil
}

var bookkeepingOps = []opKind{opOpened, opRestart, opDataSent, opDataQueued, opDataReceived, opPauseI, opPauseR, opResumeI, opResumeR,
	opNewVoucher, opNewVoucherResult, opDisconnected, opRequestCancelled, opSendDataError, opReceiveDataError, opSetDataLimit, opSetReqFin}

// role-consistent bookkeeping: which op kinds the local manager can apply to a channel of the given role
func roleOps(role int) []opKind {
	common := []opKind{opOpened, opRestart, opPauseI, opPauseR, opResumeI, opResumeR, opDisconnected, opRequestCancelled, opSendDataError, opReceiveDataError, opNewVoucher, opNewVoucherResult}
	switch role {
	case roleInitPush:
		return append(common, opDataQueued, opDataSent, opDataQueued, opDataSent)
	case roleInitPull:
		return append(common, opDataReceived, opDataReceived)
	case roleRespPush:
		return append(common, opDataReceived, opDataReceived, opSetDataLimit, opSetReqFin)
	default:
		return append(common, opDataQueued, opDataSent, opDataQueued, opDataSent, opSetDataLimit, opSetReqFin)
	}
}

// ---------------------------------------------------------------- scenario: histories

// fsmHistory drives 1-3 channels through generated histories (role-consistent or arbitrary), with clean
// and crash reopens, and evaluates all fsm-level history oracles.
func fsmHistory(roleConsistent bool, withReopen bool, exhaustiveDisk bool) func(r *RunCtx) {
	return func(r *RunCtx) {
		fw := newFsmWorld(r)
		if r.HarnessErr != "" {
			return
		}
		nch := 1 + r.Intn(3)
		for i := 0; i < nch; i++ {
			if fw.create(r.Intn(4)) == nil {
				return
			}
		}
		plans := make([][]opKind, nch)
		for i, c := range fw.chans {
			plans[i] = fw.plan(c, roleConsistent)
		}
		pos := make([]int, nch)
		remaining := 0
		for _, p := range plans {
			remaining += len(p)
		}
		reopens := 0
		for remaining > 0 {
			i := r.Intn(nch)
			for pos[i] >= len(plans[i]) {
				i = (i + 1) % nch
			}
			c := fw.chans[i]
			k := plans[i][pos[i]]
			pos[i]++
			remaining--
			if c.lost {
				continue
			}
			fw.apply(c, k, fw.genArgs(k))
			switch r.Intn(8) {
			case 0:
				simrt.Sleep(time.Duration(1+r.Intn(50)) * time.Microsecond) // let the machinery settle and the clock move
			case 1:
				if _, err := fw.get(c, "GetByID"); err == nil {
					fw.checkQueryDurable(c)
				}
			case 2:
				if withReopen && reopens < 2 && r.Intn(3) == 0 {
					reopens++
					if r.Intn(2) == 0 {
						r.Fault("clean-restart")
						WaitQuiet()
						fw.reopen(-1, roleConsistent)
					} else {
						r.Fault("crash")
						WaitQuiet()
						at := len(fw.disk.Log) - r.Intn(4)
						if r.Intn(3) == 0 {
							at = fw.lifeStartDisk + r.Intn(len(fw.disk.Log)-fw.lifeStartDisk+1)
						}
						if at < fw.lifeStartDisk {
							at = fw.lifeStartDisk
						}
						fw.reopen(at, roleConsistent)
					}
					if r.HarnessErr != "" {
						return
					}
					fw.afterReopenKick()
				}
			}
		}
		simrt.Sleep(time.Millisecond)
		fw.roleConsistent = roleConsistent
		fw.settleChecks()
		fw.historyOracles(roleConsistent)
		fw.diskOracles(exhaustiveDisk)
		fw.terminalFollowUps()
		r.Sample["channels"] = nch
		r.Sample["events_announced"] = len(fw.evs)
		r.Sample["disk_writes"] = len(fw.disk.Log)
		if len(fw.chans) > 0 {
			var codes []string
			for _, e := range fw.eventsOf(fw.chans[0].chid) {
				codes = append(codes, datatransfer.Events[e.code]+"→"+datatransfer.Statuses[e.snap.Status])
			}
			r.Sample["channel0"] = roleNames[fw.chans[0].role] + ": " + strings.Join(codes, " ")
		}
		if fw.totalEvs+len(fw.evs) > 4 {
			r.Probe("nontrivial")
		}
		_ = fw.cs.Stop(context.Background())
	}
}

// plan builds the op sequence of one channel.
func (fw *fsmWorld) plan(c *fsmChan, roleConsistent bool) []opKind {
	r := fw.r
	var p []opKind
	if !roleConsistent {
		n := 6 + r.Intn(30)
		p = append(p, opOpen)
		for i := 0; i < n; i++ {
			p = append(p, opKind(r.Intn(int(nOpKinds))))
		}
		return p
	}
	fill := func(n int) {
		ops := roleOps(c.role)
		for i := 0; i < n; i++ {
			p = append(p, ops[r.Intn(len(ops))])
		}
	}
	p = append(p, opOpen)
	if c.selfIsInitiator() {
		// signals: Accept, TransferInitiated, FinishTransfer, [RespBeginsFinal], ResponderCompletes, ending
		var sig []opKind
		if r.Intn(8) != 0 {
			sig = append(sig, opAccept)
		}
		if r.Intn(8) != 0 {
			sig = append(sig, opTransferInitiated)
		}
		if len(sig) == 2 && r.Intn(2) == 0 {
			sig[0], sig[1] = sig[1], sig[0]
		}
		var fin []opKind
		if r.Intn(5) != 0 {
			fin = append(fin, opFinishTransfer)
		}
		if r.Intn(5) != 0 {
			if r.Intn(3) == 0 {
				fin = append(fin, opRespBeginsFinal)
			}
			fin = append(fin, opResponderCompletes)
		}
		// random interleave of fin keeping BeginsFinal before Completes
		if len(fin) >= 2 && fin[0] == opFinishTransfer {
			at := r.Intn(len(fin))
			rest := append([]opKind(nil), fin[1:]...)
			fin = append(append(append([]opKind(nil), rest[:at]...), opFinishTransfer), rest[at:]...)
		}
		if len(sig) == 0 {
			sig = nil
		}
		for _, s := range sig {
			fill(r.Intn(4))
			p = append(p, s)
		}
		fill(r.Intn(8))
		endAt := -1
		if r.Intn(4) == 0 {
			endAt = r.Intn(len(fin) + 1)
		}
		for i, s := range fin {
			if i == endAt {
				p = append(p, []opKind{opCancel, opError}[r.Intn(2)])
			}
			fill(r.Intn(5))
			p = append(p, s)
		}
		if endAt == len(fin) {
			p = append(p, []opKind{opCancel, opError}[r.Intn(2)])
		}
		fill(r.Intn(3))
		return p
	}
	// responder
	p = append(p, opAccept)
	if r.Intn(2) == 0 {
		p = append(p, opSetDataLimit)
	}
	reqFin := r.Intn(2) == 0
	if reqFin {
		p = append(p, opSetReqFin)
	}
	fill(r.Intn(3))
	if r.Intn(8) != 0 {
		p = append(p, opTransferInitiated)
	}
	fill(r.Intn(10))
	switch r.Intn(6) {
	case 0:
		p = append(p, opCancel)
	case 1:
		p = append(p, opError)
	case 2: // still running at the end
	default:
		if reqFin || r.Intn(4) == 0 {
			p = append(p, opBeginFinalizing)
			fill(r.Intn(4))
			switch r.Intn(4) {
			case 0:
				p = append(p, opCancel)
			case 1:
			default:
				p = append(p, opResumeR)
			}
		} else {
			p = append(p, opComplete)
		}
	}
	fill(r.Intn(3))
	return p
}

// afterReopenKick: a manager restarts cleaning-up channels with CompleteCleanupOnRestart (RestartDataTransferChannel);
// the fsm-level harness does the same for channels it finds in a cleanup status.
func (fw *fsmWorld) afterReopenKick() {
	for _, c := range fw.chans {
		if c.lost {
			continue
		}
		s, err := fw.get(c, "GetByID-after-reopen")
		if err != nil {
			continue
		}
		if isCleanup(s.Status) {
			fw.r.Probe("reopened-in-cleanup")
			before := len(fw.envCalls)
			nev := len(fw.evs)
			fw.apply(c, opCCOR, opArgs{})
			simrt.Sleep(time.Millisecond)
			// C17: the event was applied (the channel finishes its cleanup because of it), so subscribers hear of it - once,
			// before the CleanupComplete it leads to
			nccor, ncc := 0, 0
			for _, e := range fw.evs[nev:] {
				if e.chid != c.chid {
					continue
				}
				if e.code == datatransfer.CompleteCleanupOnRestart {
					nccor++
					if ncc > 0 {
						fw.r.Failf("C17", "announced-not-sent-or-reordered", "CompleteCleanupOnRestart-after-CleanupComplete", "channel %d: CompleteCleanupOnRestart was announced after the CleanupComplete it caused", c.chid.ID)
					}
				}
				if e.code == datatransfer.CleanupComplete {
					ncc++
				}
			}
			if ncc > 0 && nccor != 1 {
				fw.r.Failf("C17", "applied-event-not-announced", fmt.Sprintf("CompleteCleanupOnRestart|announced=%d", nccor), "channel %d reopened in %s: CompleteCleanupOnRestart was applied (cleanup completed) but announced %d times", c.chid.ID, datatransfer.Statuses[s.Status], nccor)
			}
			fw.r.Probe("cleanup-on-restart-announced")
			s2, err := fw.get(c, "GetByID-after-ccor")
			if err == nil && s2.Status != terminalOf(s.Status) {
				fw.r.Failf("C06", "cleanup-not-finished-on-restart", datatransfer.Statuses[s.Status], "channel reopened in %s and restarted stays in %s (want %s)", datatransfer.Statuses[s.Status], datatransfer.Statuses[s2.Status], datatransfer.Statuses[terminalOf(s.Status)])
			}
			ncl := 0
			for _, ec := range fw.envCalls[before:] {
				if ec.kind == "cleanup" && ec.chid == c.chid {
					ncl++
				}
			}
			if ncl == 0 {
				fw.r.Failf("C06", "cleanup-not-run-on-restart", datatransfer.Statuses[s.Status], "channel reopened in %s finished without the environment recording a cleanup", datatransfer.Statuses[s.Status])
			}
		}
	}
}

// checkQueryDurable: a state returned by a query is already on disk (C06).
func (fw *fsmWorld) checkQueryDurable(c *fsmChan) {
	got, err := fw.get(c, "GetByID")
	if err != nil {
		return
	}
	// read the same key through a fresh instance over the current durable bytes
	d := fw.disk.Reopen(len(fw.disk.Log))
	states, ok := fw.probeOpen(d)
	if !ok {
		return
	}
	if s, has := states[c.chid]; !has || s.Key() != got.Key() {
		// the live channel may have moved on between the query and the probe only if something ran in between; nothing did (no yield that lets others run is guaranteed), so compare loosely: accept if durable state is a *later* announced snapshot
		for _, e := range fw.eventsOf(c.chid) {
			if has && e.snap.Key() == s.Key() {
				return
			}
		}
		fw.r.Failf("C06", "query-not-durable", "GetByID", "GetByID returned %v but the datastore holds %v (present=%v)", got, s, has)
	}
}

// probeOpen opens a throw-away Channels on d and lists all states.
func (fw *fsmWorld) probeOpen(d *Disk) (map[datatransfer.ChannelID]Snap, bool) {
	cs, err := channels.New(d, func(datatransfer.Event, datatransfer.ChannelState) {}, &nullEnv{fw.self}, fw.self)
	if err != nil {
		fw.r.HarnessErr = "probe channels.New: " + err.Error()
		return nil, false
	}
	if err := cs.Start(context.Background()); err != nil {
		fw.r.HarnessErr = "probe Start: " + err.Error()
		return nil, false
	}
	m, err := cs.InProgress()
	if err != nil {
		fw.r.Failf("C06", "list-fails-after-reopen", "InProgress", "InProgress after reopen failed: %v", err)
		return nil, false
	}
	out := map[datatransfer.ChannelID]Snap{}
	for _, id := range sortedBy(m, chidStr) {
		out[id] = TakeSnap(fw.r, "InProgress-after-reopen", m[id])
	}
	_ = cs.Stop(context.Background())
	return out, true
}

type nullEnv struct{ self peer.ID }

func (nullEnv) Protect(peer.ID, string)              {}
func (nullEnv) Unprotect(peer.ID, string) bool       { return false }
func (e nullEnv) ID() peer.ID                        { return e.self }
func (nullEnv) CleanupChannel(datatransfer.ChannelID) {}

// checkBoundary reopens the disk at boundary b and checks prefix consistency. lastK (optional) carries the
// per-channel index of the last matched snapshot for monotonicity across increasing boundaries.
func (fw *fsmWorld) checkBoundary(b int, lastK map[datatransfer.ChannelID]int) {
	r := fw.r
	d := fw.disk.Reopen(b)
	states, ok := fw.probeOpen(d)
	if !ok {
		return
	}
	r.Probe("reopen-checked")
	for _, c := range fw.chans {
		// channel exists on disk at b iff its key was written in the prefix
		created := false
		for _, e := range fw.disk.Log[:b] {
			for _, op := range e.Ops {
				if strings.HasSuffix(op.Key, "/"+c.chid.String()) {
					created = true
				}
			}
		}
		s, has := states[c.chid]
		if created != has {
			r.Failf("C06", "channel-set-after-reopen", fmt.Sprintf("created=%v listed=%v", created, has), "at write boundary %d channel %d: created-before-boundary=%v but listed-after-reopen=%v", b, c.chid.ID, created, has)
			continue
		}
		if !has {
			continue
		}
		// candidates: creation state, then each announced snapshot, in order
		cands := []Snap{c.base}
		for _, e := range fw.eventsOf(c.chid) {
			cands = append(cands, e.snap)
		}
		from := 0
		if lastK != nil {
			from = lastK[c.chid]
		}
		found := -1
		for k := from; k < len(cands); k++ {
			if cands[k].Key() == s.Key() {
				found = k
				break
			}
		}
		if found < 0 {
			// distinguish "never current" from "went backwards"
			back := false
			for k := 0; k < from && k < len(cands); k++ {
				if cands[k].Key() == s.Key() {
					back = true
				}
			}
			if back {
				r.Failf("C06", "state-went-backwards", "reopen", "at write boundary %d channel %d reopened to an *earlier* state than at a smaller boundary: %v", b, c.chid.ID, s)
			} else {
				r.Failf("C06", "state-never-current", strings.Join(cands[len(cands)-1].Diff(s), "+"), "at write boundary %d channel %d reopened to %v which equals no state that was ever current (creation + %d announced snapshots); last announced %v", b, c.chid.ID, s, len(cands)-1, cands[len(cands)-1])
			}
			continue
		}
		if found > 0 && found < len(cands)-1 {
			r.Probe("reopen-strictly-inside")
		}
		if lastK != nil {
			lastK[c.chid] = found
		}
	}
	for _, id := range sortedBy(states, chidStr) {
		known := false
		for _, c := range fw.chans {
			if c.chid == id {
				known = true
			}
		}
		if !known {
			r.Failf("C06", "channel-set-after-reopen", "extra", "reopen at boundary %d lists channel %v that was never created", b, id)
		}
	}
}

// diskOracles: C06 prefix consistency over write boundaries of the final disk log (sampled or exhaustive),
// plus the R2 direction of C17 (every announced state change reaches the disk, in order).
func (fw *fsmWorld) diskOracles(exhaustive bool) {
	r := fw.r
	if r.HarnessErr != "" {
		return
	}
	n := len(fw.disk.Log)
	lastK := map[datatransfer.ChannelID]int{}
	var bs []int
	if exhaustive {
		for b := fw.lifeStartDisk; b <= n; b++ {
			bs = append(bs, b)
		}
		r.Probe("exhaustive-boundaries")
	} else {
		k := 4
		if k > n {
			k = n
		}
		prev := fw.lifeStartDisk
		for i := 0; i < k; i++ {
			span := (n - prev)
			if span <= 0 {
				break
			}
			b := prev + 1 + r.Intn(span)
			if b > n {
				b = n
			}
			bs = append(bs, b)
			prev = b
		}
		bs = append(bs, n)
	}
	// only the log of the current life is comparable with announced snapshots of all lives (snapshots accumulate across lives)
	for _, b := range bs {
		fw.checkBoundary(b, lastK)
	}
	// final: durable state == last announced snapshot (after quiescence), per channel
	states, ok := fw.probeOpen(fw.disk.Reopen(n))
	if !ok {
		return
	}
	for _, c := range fw.chans {
		if c.lost {
			continue
		}
		evs := fw.eventsOf(c.chid)
		want := c.base
		if len(evs) > 0 {
			want = evs[len(evs)-1].snap
		}
		if s, has := states[c.chid]; has && s.Key() != want.Key() {
			r.Failf("C17", "announced-state-not-persisted", strings.Join(want.Diff(s), "+"), "channel %d: at quiescence the durable state %v differs from the last announced snapshot %v (event %s)", c.chid.ID, s, want, lastCode(evs))
		}
	}
}

func lastCode(evs []*evRec) string {
	if len(evs) == 0 {
		return "<none>"
	}
	return datatransfer.Events[evs[len(evs)-1].code]
}

// settleChecks: C09 at fsm level — every entry into a cleanup status is followed by cleanup + unprotect and the
// matching terminal status; terminal is never announced without a cleanup since the entry.
func (fw *fsmWorld) settleChecks() {
	r := fw.r
	for _, c := range fw.chans {
		if c.lost {
			continue
		}
		evs := fw.eventsOf(c.chid)
		prev := c.base.Status
		entryIdx := -1 // index (1-based count of events) at which the current cleanup status was entered
		entries, lifecycleAfterEntry := 0, false
		var entryStatus datatransfer.Status
		if isCleanup(prev) { // entered in an earlier life
			entryIdx, entries, entryStatus = 0, 1, prev
		}
		for i, e := range evs {
			s := e.snap.Status
			if isCleanup(s) && (!isCleanup(prev) || s != prev) {
				entryIdx = i + 1
				entries++
				entryStatus = s
				lifecycleAfterEntry = false
			} else if isCleanup(prev) && evLifecycle[e.code] && e.code != datatransfer.CleanupComplete {
				lifecycleAfterEntry = true
			}
			if isTerminal(s) && !isTerminal(prev) {
				// a cleanup must have been recorded since the entry
				ncl, nup := 0, 0
				for _, ec := range fw.envCalls {
					if ec.kind == "cleanup" && ec.chid == c.chid && ec.step <= e.step {
						ncl++
					}
					if ec.kind == "unprotect" && ec.tag == c.chid.String() {
						nup++
					}
				}
				if entryIdx < 0 || ncl == 0 || nup == 0 {
					r.Failf("C09", "terminal-without-cleanup", datatransfer.Statuses[s], "channel %d reached %s with %d cleanup and %d unprotect calls since it entered the cleanup status (entry at event %d)", c.chid.ID, datatransfer.Statuses[s], ncl, nup, entryIdx)
				}
				if s != terminalOf(entryStatus) && !lifecycleAfterEntry {
					r.Failf("C09", "wrong-terminal", datatransfer.Statuses[entryStatus]+"->"+datatransfer.Statuses[s], "channel %d entered %s but settled in %s", c.chid.ID, datatransfer.Statuses[entryStatus], datatransfer.Statuses[s])
				}
			}
			prev = s
		}
		// settles: a channel whose last announced status is a cleanup status, with no lifecycle input since entry, must have settled
		if len(evs) > 0 {
			last := evs[len(evs)-1]
			if isCleanup(last.snap.Status) && !lifecycleAfterEntry && last.life == fw.life {
				r.Failf("C09", "cleanup-never-settles", datatransfer.Statuses[last.snap.Status], "channel %d is still %s at quiescence (entered at event %d, no further lifecycle input)", c.chid.ID, datatransfer.Statuses[last.snap.Status], entryIdx)
			}
		}
		// "Closing a channel ... ends in Cancelled (or Failed for close-with-error)": once Cancel took the channel into
		// Cancelling, whatever the peer or the transport still deliver must not take it anywhere but Cancelled - or Failed
		// when an Error followed
		cancelAt, errorAfter := -1, false
		for i, e := range evs {
			if e.life != fw.life {
				continue
			}
			if e.code == datatransfer.Cancel && e.snap.Status == datatransfer.Cancelling && cancelAt < 0 {
				cancelAt = i
			} else if cancelAt >= 0 && (e.code == datatransfer.Error || e.code == datatransfer.Disconnected || e.code == datatransfer.SendDataError || e.code == datatransfer.ReceiveDataError || e.code == datatransfer.RequestCancelled) {
				errorAfter = true
			}
		}
		if cancelAt >= 0 && !fw.crashed && fw.roleConsistent {
			last := evs[len(evs)-1]
			r.Probe("close-then-more-events")
			if fin := last.snap.Status; fin != datatransfer.Cancelled && !(errorAfter && (fin == datatransfer.Failed || fin == datatransfer.Failing)) && fin != datatransfer.Cancelling {
				r.Failf("C09", "closed-channel-left-cancelling", datatransfer.Statuses[fin]+"|after:"+datatransfer.Events[last.code], "channel %d was closed (Cancel announced, Cancelling) and ends in %s after %s", c.chid.ID, datatransfer.Statuses[fin], datatransfer.Events[last.code])
			}
		}
		// cleanup count bounds: >= entries; <= events announced while in a cleanup status (+entries)
		ncl := 0
		inCleanupEvents := 0
		for _, ec := range fw.envCalls {
			if ec.kind == "cleanup" && ec.chid == c.chid {
				ncl++
			}
		}
		p := c.base.Status
		for _, e := range evs {
			if isCleanup(e.snap.Status) || isCleanup(p) {
				inCleanupEvents++
			}
			p = e.snap.Status
		}
		if ncl < entries {
			// entries whose life ended by crash before the cleanup ran are excused
			{
				r.Failf("C09", "cleanup-missing", "count", "channel %d entered a cleanup status %d times but only %d cleanups were recorded", c.chid.ID, entries, ncl)
			}
		}
		if ncl > inCleanupEvents+entries {
			r.Failf("C09", "cleanup-too-often", "count", "channel %d: %d cleanups for %d entries and %d events in cleanup statuses", c.chid.ID, ncl, entries, inCleanupEvents)
		}
		// no cleanup while the channel is in a non-cleanup, non-terminal status
		for _, ec := range fw.envCalls {
			if ec.kind != "cleanup" || ec.chid != c.chid {
				continue
			}
			st := c.base.Status
			if ec.nev > 0 && ec.nev <= len(evs) {
				st = evs[ec.nev-1].snap.Status
			}
			// the notifier may lag the state machine: accept if any *later* announced status is a cleanup status too
			okc := isCleanup(st) || isTerminal(st)
			for j := ec.nev; !okc && j < len(evs); j++ {
				if isCleanup(evs[j].snap.Status) {
					okc = true
				}
			}
			if !okc {
				r.Failf("C09", "cleanup-in-live-status", datatransfer.Statuses[st], "channel %d: transport cleanup ran while the channel was %s and it never entered a cleanup status afterwards", c.chid.ID, datatransfer.Statuses[st])
			}
		}
	}
}

// historyOracles: per-channel checks over the announced event stream.
func (fw *fsmWorld) historyOracles(roleConsistent bool) {
	r := fw.r
	for _, c := range fw.chans {
		if c.lost {
			continue
		}
		evs := fw.eventsOf(c.chid)
		sev := make([]StreamEv, len(evs))
		for k, e := range evs {
			sev[k] = StreamEv{Code: e.code, Snap: e.snap, Step: e.step}
		}
		base := c.base
		checkStream(r, fmt.Sprintf("channel %d (%s)", c.chid.ID, roleNames[c.role]), c.selfIsInitiator(), &base, c.created.Voucher0, sev)
		// C17 R3: announced codes are a subsequence of sent codes (plus internally generated ones)
		fw.sentHistoryOracle(c, evs)
		if roleConsistent {
			fw.diamondOracle(c, evs)
		}
	}
}

var internalCodes = map[datatransfer.EventCode]bool{
	datatransfer.CleanupComplete: true, datatransfer.DataLimitExceeded: true,
	datatransfer.DataQueuedProgress: true, datatransfer.DataSentProgress: true, datatransfer.DataReceivedProgress: true,
}

func (fw *fsmWorld) sentHistoryOracle(c *fsmChan, evs []*evRec) {
	r := fw.r
	si := 0
	for _, e := range evs {
		if internalCodes[e.code] {
			continue
		}
		matched := false
		for si < len(c.sent) {
			k := c.sent[si]
			si++
			if opCode[k.kind] == e.code {
				matched = true
				if k.err != nil && !errors.Is(k.err, datatransfer.ErrPause) {
					r.Failf("C17", "announced-but-send-failed", datatransfer.Events[e.code], "channel %d: %s was announced although the call that sent it returned %v", c.chid.ID, datatransfer.Events[e.code], k.err)
				}
				break
			}
		}
		if !matched {
			r.Failf("C17", "announced-not-sent-or-reordered", datatransfer.Events[e.code], "channel %d: announced events are not a subsequence of the events sent (offending: %s)", c.chid.ID, datatransfer.Events[e.code])
			return
		}
	}
	// always-recorded kinds sent (nil return) before any ending op must have been announced exactly once
	firstEnding := len(c.sent)
	for i, k := range c.sent {
		switch k.kind {
		case opCancel, opError, opComplete, opFinishTransfer, opResponderCompletes, opBeginFinalizing, opResumeR, opCCOR:
			if i < firstEnding {
				firstEnding = i
			}
		}
	}
	want := map[datatransfer.EventCode]int{}
	for _, k := range c.sent[:firstEnding] {
		if k.err == nil && (k.kind == opNewVoucher || k.kind == opNewVoucherResult || k.kind == opRestart || k.kind == opDisconnected || k.kind == opSetDataLimit || k.kind == opDataReceived) {
			want[opCode[k.kind]]++
		}
	}
	got := map[datatransfer.EventCode]int{}
	for _, e := range evs {
		got[e.code]++
	}
	// events sent after firstEnding may add to got; so only require got >= want, and got <= total sent
	sentTot := map[datatransfer.EventCode]int{}
	for _, k := range c.sent {
		sentTot[opCode[k.kind]]++
	}
	codeStr := func(c datatransfer.EventCode) string { return fmt.Sprintf("%04d", int(c)) }
	for _, code := range sortedBy(want, codeStr) {
		n := want[code]
		if got[code] < n && !fw.crashed {
			r.Failf("C17", "applied-event-not-announced", datatransfer.Events[code], "channel %d: %d %s events were applied before any ending event but only %d announced", c.chid.ID, n, datatransfer.Events[code], got[code])
		}
	}
	for _, code := range sortedBy(got, codeStr) {
		n := got[code]
		if !internalCodes[code] && n > sentTot[code] {
			r.Failf("C17", "event-announced-twice", datatransfer.Events[code], "channel %d: %s announced %d times, sent %d times", c.chid.ID, datatransfer.Events[code], n, sentTot[code])
		}
	}
}

// diamondOracle (C03-1/2) for role-consistent histories.
func (fw *fsmWorld) diamondOracle(c *fsmChan, evs []*evRec) {
	r := fw.r
	if c.selfIsInitiator() {
		accepted, ft, rc, ended := false, false, false, false
		completedSeen := false
		for _, e := range evs {
			switch e.code {
			case datatransfer.Accept:
				accepted = true
			case datatransfer.FinishTransfer:
				ft = true
			case datatransfer.ResponderCompletes:
				rc = true
			case datatransfer.Cancel, datatransfer.Error:
				ended = true
			}
			s := e.snap.Status
			if (s == datatransfer.Completing || s == datatransfer.Completed) && !completedSeen && !ended {
				completedSeen = true
				if accepted && !(ft && rc) {
					r.Failf("C03", "completed-without-both-signals", fmt.Sprintf("ft=%v rc=%v via %s", ft, rc, datatransfer.Events[e.code]), "initiator channel %d (%s, accepted) reached %s on %s with transport-finished=%v responder-complete=%v", c.chid.ID, roleNames[c.role], datatransfer.Statuses[s], datatransfer.Events[e.code], ft, rc)
				}
				if accepted {
					r.Probe("diamond-completed")
				}
			}
			if accepted && ft && rc && !ended && !completedSeen && (e.code == datatransfer.FinishTransfer || e.code == datatransfer.ResponderCompletes) {
				r.Failf("C03", "both-signals-no-completion", datatransfer.Events[e.code]+"->"+datatransfer.Statuses[s], "initiator channel %d (%s): both completion signals announced, yet status after the later one (%s) is %s", c.chid.ID, roleNames[c.role], datatransfer.Events[e.code], datatransfer.Statuses[s])
			}
		}
		return
	}
	// responder finalisation
	inFin := false
	for _, e := range evs {
		s := e.snap.Status
		if inFin && s != datatransfer.Finalizing {
			switch e.code {
			case datatransfer.ResumeResponder:
				if s != datatransfer.Completing {
					r.Failf("C03", "finalizing-release", datatransfer.Statuses[s], "responder channel %d: ResumeResponder released Finalizing into %s (want Completing)", c.chid.ID, datatransfer.Statuses[s])
				}
				r.Probe("finalizing-released")
			case datatransfer.Cancel, datatransfer.Error:
			default:
				r.Failf("C03", "finalizing-left-without-release", datatransfer.Events[e.code], "responder channel %d left Finalizing on %s (-> %s)", c.chid.ID, datatransfer.Events[e.code], datatransfer.Statuses[s])
			}
			inFin = false
		}
		if s == datatransfer.Finalizing {
			inFin = true
			if !e.snap.RPaused {
				r.Failf("C03", "finalizing-not-paused", "ResponderPaused", "responder channel %d in Finalizing reports ResponderPaused()=false", c.chid.ID)
			}
		}
	}
}

// terminalFollowUps (C02): for every channel that is terminal now, apply every kind of follow-up (same process and
// after reopening) and require: no announcement, identical query result, identical durable bytes.
func (fw *fsmWorld) terminalFollowUps() {
	r := fw.r
	for _, c := range fw.chans {
		if c.lost {
			continue
		}
		s0, err := fw.get(c, "GetByID-terminal")
		if err != nil || !isTerminal(s0.Status) {
			continue
		}
		r.Probe("terminal-followups")
		key := "/" + c.chid.String()
		raw0 := fw.disk.rawBySuffix(key)
		nev0 := len(fw.eventsOf(c.chid))
		check := func(after string) {
			simrt.Sleep(time.Millisecond)
			s1, err := fw.get(c, "GetByID-terminal")
			if err != nil {
				r.Failf("C02", "terminal-channel-lost", after, "terminal channel %d no longer readable after %s: %v", c.chid.ID, after, err)
				return
			}
			if s1.Key() != s0.Key() {
				r.Failf("C02", "terminal-state-changed", after+"|"+strings.Join(s0.Diff(s1), "+"), "terminal channel %d changed after %s: %v -> %v", c.chid.ID, after, s0, s1)
			}
			if raw1 := fw.disk.rawBySuffix(key); raw1 != raw0 {
				r.Failf("C02", "terminal-bytes-changed", after, "durable bytes of terminal channel %d changed after %s", c.chid.ID, after)
			}
			if n := len(fw.eventsOf(c.chid)); n != nev0 {
				r.Failf("C02", "event-after-terminal", after, "terminal channel %d: %d further event(s) announced after %s", c.chid.ID, n-nev0, after)
			}
		}
		for k := opKind(0); k < nOpKinds; k++ {
			err := fw.apply(c, k, fw.genArgs(k))
			if k == opCancel && err != nil {
				r.Failf("C02", "cancel-of-terminal-errors", "Cancel", "Cancel of terminal channel %d returned %v (must be a no-op)", c.chid.ID, err)
			}
			if r.Intn(3) == 0 {
				check(opNames[k])
			}
		}
		check("all-followups")
		if r.Intn(2) == 0 {
			fw.reopen(-1, false)
			if r.HarnessErr != "" {
				return
			}
			k := opKind(r.Intn(int(nOpKinds)))
			nev0 = 0
			raw0 = fw.disk.rawBySuffix(key)
			fw.apply(c, k, fw.genArgs(k))
			check("reopen+" + opNames[k])
		}
	}
}

func init() {
	h := func(name string, w int, rc, reopen, exh bool) Stratum {
		return Stratum{Name: name, Weight: w, Fn: fsmHistory(rc, reopen, exh), MaxSteps: 200_000, Horizon: time.Hour}
	}
	Register("C02", h("fsm-role-consistent", 3, true, false, false), h("fsm-arbitrary", 3, false, false, false), h("fsm-arbitrary-reopen", 2, false, true, false))
	Register("C03", h("fsm-role-consistent", 5, true, false, false), h("fsm-arbitrary", 2, false, false, false), h("fsm-role-consistent-reopen", 1, true, true, false))
	Register("C06", h("fsm-role-consistent-reopen", 3, true, true, false), h("fsm-arbitrary-reopen", 3, false, true, false), h("fsm-exhaustive-boundaries", 1, true, false, true))
	Register("C11", h("fsm-role-consistent", 3, true, false, false), h("fsm-arbitrary", 3, false, false, false))
	Register("C09", h("fsm-role-consistent", 2, true, false, false), h("fsm-arbitrary", 2, false, false, false), h("fsm-arbitrary-reopen", 1, false, true, false))
	Register("C19", h("fsm-role-consistent", 1, true, false, false), h("fsm-arbitrary-reopen", 1, false, true, false))
	Register("C17", h("fsm-role-consistent", 3, true, false, false), h("fsm-arbitrary", 3, false, false, false), h("fsm-exhaustive-boundaries", 1, false, false, true),
		h("fsm-role-consistent-reopen", 2, true, true, false), h("fsm-arbitrary-reopen", 1, false, true, false))
}
