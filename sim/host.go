package sim

import (
	"context"
	"errors"
	"fmt"
	"io"
	"time"

	"github.com/libp2p/go-libp2p/core/connmgr"
	"github.com/libp2p/go-libp2p/core/host"
	"github.com/libp2p/go-libp2p/core/network"
	"github.com/libp2p/go-libp2p/core/peer"
	"github.com/libp2p/go-libp2p/core/protocol"

	"verif/simrt"
)

// Net is the simulated libp2p network shared by all hosts of a run.
type Net struct {
	W     *World
	hosts map[peer.ID]*Host
	cut   map[[2]peer.ID]bool
	// OpenFail: scripted failures for the next NewStream calls per (from,to)
	OpenFail map[[2]peer.ID]int
	// WriteFail: the next stream writes fail
	WriteFail int
	// WriteFailAfter (>0): the n-th Write from now on fails (then resets to 0)
	WriteFailAfter int
	// OpenScript: per (from,to) scripted outcomes of the next NewStream calls: 'o' ok, 'f' fail, 'b' block until the context ends
	OpenScript map[[2]peer.ID][]byte
	// Opens logs every NewStream call
	Opens   []OpenRec
	Resets  []ResetRec
	streams int
}

type OpenRec struct {
	From, To peer.ID
	T0, T1   time.Time
	Outcome  byte
}
type ResetRec struct {
	Stream int
	By     peer.ID
}

func NewNet(w *World) *Net {
	return &Net{W: w, hosts: map[peer.ID]*Host{}, cut: map[[2]peer.ID]bool{}, OpenFail: map[[2]peer.ID]int{}, OpenScript: map[[2]peer.ID][]byte{}}
}

func (n *Net) Cut(a, b peer.ID, cut bool) {
	n.cut[[2]peer.ID{a, b}] = cut
	n.cut[[2]peer.ID{b, a}] = cut
}
func (n *Net) IsCut(a, b peer.ID) bool { return n.cut[[2]peer.ID{a, b}] }

type Host struct {
	host.Host // nil: unused methods panic loudly
	net       *Net
	id        peer.ID
	handlers  map[protocol.ID]network.StreamHandler
	cm        *ConnMgr
	Label     string
	epoch     int // bumped when the process behind this host dies; streams of older epochs are reset
}

// Kill models the death of the process: handlers vanish and every open stream is reset.
func (h *Host) Kill() {
	h.epoch++
	h.handlers = map[protocol.ID]network.StreamHandler{}
}

func (n *Net) NewHost(id peer.ID) *Host {
	h := &Host{net: n, id: id, handlers: map[protocol.ID]network.StreamHandler{}, cm: &ConnMgr{w: n.W, self: id, Tags: map[string]int{}}}
	n.hosts[id] = h
	return h
}

func (h *Host) ID() peer.ID                       { return h.id }
func (h *Host) ConnManager() connmgr.ConnManager  { return h.cm }
func (h *Host) SetStreamHandler(p protocol.ID, f network.StreamHandler) { h.handlers[p] = f }
func (h *Host) RemoveStreamHandler(p protocol.ID) { delete(h.handlers, p) }
func (h *Host) Connect(ctx context.Context, pi peer.AddrInfo) error {
	simrt.Yield("host.connect")
	if h.net.IsCut(h.id, pi.ID) {
		return errors.New("simnet: no route to peer")
	}
	return nil
}

func (h *Host) NewStream(ctx context.Context, p peer.ID, pids ...protocol.ID) (network.Stream, error) {
	simrt.Yield("host.newstream")
	if err := ctx.Err(); err != nil {
		return nil, err
	}
	key := [2]peer.ID{h.id, p}
	if sc := h.net.OpenScript[key]; len(sc) > 0 {
		act := sc[0]
		h.net.OpenScript[key] = sc[1:]
		rec := OpenRec{From: h.id, To: p, T0: time.Now(), Outcome: act}
		switch act {
		case 'f':
			rec.T1 = time.Now()
			h.net.Opens = append(h.net.Opens, rec)
			return nil, errors.New("simnet: scripted stream open failure")
		case 'b':
			cs := []simrt.Case{simrt.R(ctx.Done())}
			simrt.Select(cs, false)
			rec.T1 = time.Now()
			h.net.Opens = append(h.net.Opens, rec)
			return nil, ctx.Err()
		}
		rec.T1 = time.Now()
		h.net.Opens = append(h.net.Opens, rec)
	} else {
		h.net.Opens = append(h.net.Opens, OpenRec{From: h.id, To: p, T0: time.Now(), T1: time.Now(), Outcome: 'o'})
	}
	if h.net.OpenFail[key] > 0 {
		h.net.OpenFail[key]--
		h.net.W.Logf("net %s->%s newstream: injected failure", short(h.id), short(p))
		return nil, errors.New("simnet: injected stream open failure")
	}
	if h.net.IsCut(h.id, p) {
		return nil, errors.New("simnet: connection cut")
	}
	r := h.net.hosts[p]
	if r == nil {
		return nil, errors.New("simnet: unknown peer")
	}
	var pid protocol.ID
	var handler network.StreamHandler
	for _, c := range pids {
		if f, ok := r.handlers[c]; ok {
			pid, handler = c, f
			break
		}
	}
	if handler == nil {
		return nil, errors.New("simnet: protocols not supported")
	}
	h.net.streams++
	pipe := &pipe{id: h.net.streams, wake: make(chan struct{}, 1), ha: h, hb: r, ea: h.epoch, eb: r.epoch}
	local := &Stream{p: pipe, w: h.net.W, self: h.id, remote: p, proto: pid, writer: true}
	remote := &Stream{p: pipe, w: h.net.W, self: p, remote: h.id, proto: pid}
	lbl := r.Label
	ep0 := r.epoch
	rr := r
	simrt.Go(func() {
		simrt.SetLabel(lbl)
		if h.net.W.R != nil {
			cb := &Callback{Name: "stream-handler", Node: lbl, Task: h.net.W.S.CurrentTask(), Step: h.net.W.S.Steps, Dead: func() bool { return rr.epoch != ep0 }}
			h.net.W.R.Callbacks = append(h.net.W.R.Callbacks, cb)
			handler(remote)
			cb.Done = true
			return
		}
		handler(remote)
	})
	return local, nil
}

type pipe struct {
	ha, hb *Host
	ea, eb int
	id     int
	buf    []byte
	closed bool // writer closed: EOF after buf drained
	reset  bool
	wake   chan struct{}
}

// dead reports whether either end's process died since the stream was opened.
func (p *pipe) dead() bool {
	return (p.ha != nil && p.ha.epoch != p.ea) || (p.hb != nil && p.hb.epoch != p.eb)
}

func (p *pipe) signal() {
	select {
	case p.wake <- struct{}{}:
	default:
	}
}

type Stream struct {
	network.Stream // nil embed
	p              *pipe
	w              *World
	self, remote   peer.ID
	proto          protocol.ID
	writer         bool
	rdeadline      time.Time
}

type conn struct {
	network.Conn
	remote peer.ID
}

func (c conn) RemotePeer() peer.ID { return c.remote }

func (s *Stream) Protocol() protocol.ID { return s.proto }
func (s *Stream) Conn() network.Conn    { return conn{remote: s.remote} }
func (s *Stream) ID() string            { return fmt.Sprintf("s%d", s.p.id) }

func (s *Stream) Write(b []byte) (int, error) {
	simrt.Yield("stream.write")
	if s.p.reset || s.p.dead() {
		return 0, network.ErrReset
	}
	if s.w.Net.WriteFail > 0 {
		s.w.Net.WriteFail--
		return 0, errors.New("simnet: injected write failure")
	}
	if s.w.Net.WriteFailAfter > 0 {
		s.w.Net.WriteFailAfter--
		if s.w.Net.WriteFailAfter == 0 {
			return 0, errors.New("simnet: injected write failure")
		}
	}
	if s.w.Net.IsCut(s.self, s.remote) {
		s.p.reset = true
		s.p.signal()
		return 0, errors.New("simnet: connection cut during write")
	}
	s.p.buf = append(s.p.buf, b...)
	s.p.signal()
	return len(b), nil
}

func (s *Stream) Read(b []byte) (int, error) {
	for {
		simrt.Yield("stream.read")
		if s.p.reset || s.p.dead() {
			return 0, network.ErrReset
		}
		if len(s.p.buf) > 0 {
			n := len(b)
			if n > len(s.p.buf) {
				n = len(s.p.buf)
			}
			// short reads: the tape decides how much of what is available is handed over
			if n > 1 {
				n = 1 + s.w.Intn(n)
			}
			copy(b, s.p.buf[:n])
			s.p.buf = s.p.buf[n:]
			return n, nil
		}
		if s.p.closed {
			return 0, io.EOF
		}
		// block until the writer does something or the read deadline passes
		var timer <-chan time.Time
		if !s.rdeadline.IsZero() {
			d := time.Until(s.rdeadline)
			if d <= 0 {
				return 0, errors.New("simnet: read deadline exceeded")
			}
			timer = time.After(d)
		}
		cs := []simrt.Case{simrt.R(s.p.wake), simrt.R(timer)}
		if simrt.Select(cs, false) == 1 {
			return 0, errors.New("simnet: read deadline exceeded")
		}
	}
}

func (s *Stream) Close() error {
	if s.writer {
		s.p.closed = true
		s.p.signal()
	}
	return nil
}
func (s *Stream) CloseWrite() error { return s.Close() }
func (s *Stream) CloseRead() error  { return nil }
func (s *Stream) Reset() error {
	s.w.Net.Resets = append(s.w.Net.Resets, ResetRec{Stream: s.p.id, By: s.self})
	s.p.reset = true
	s.p.signal()
	return nil
}
func (s *Stream) ResetWithError(network.StreamErrorCode) error { return s.Reset() }
func (s *Stream) SetDeadline(t time.Time) error      { s.rdeadline = t; return nil }
func (s *Stream) SetReadDeadline(t time.Time) error  { s.rdeadline = t; return nil }
func (s *Stream) SetWriteDeadline(t time.Time) error { return nil }

// ConnMgr records protect/unprotect calls.
type ConnMgr struct {
	connmgr.ConnManager
	w    *World
	self peer.ID
	Tags map[string]int
	Log  []CMCall
}

type CMCall struct {
	Step    int
	Protect bool
	Peer    peer.ID
	Tag     string
}

func (c *ConnMgr) Protect(id peer.ID, tag string) {
	c.Tags[string(id)+"/"+tag]++
	c.Log = append(c.Log, CMCall{Step: c.w.S.Steps, Protect: true, Peer: id, Tag: tag})
	c.w.Logf("connmgr %s protect %s", short(c.self), tag)
}
func (c *ConnMgr) Unprotect(id peer.ID, tag string) bool {
	k := string(id) + "/" + tag
	c.Log = append(c.Log, CMCall{Step: c.w.S.Steps, Protect: false, Peer: id, Tag: tag})
	c.w.Logf("connmgr %s unprotect %s", short(c.self), tag)
	if c.Tags[k] > 0 {
		delete(c.Tags, k)
	}
	return false
}
