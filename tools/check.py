#!/usr/bin/env python3
"""check.py <property> <quick|thorough> [--replay FILE]

Builds the transformed tree of /repo's *current working tree* (content-keyed cache), runs seeded
simulation workers for the property, merges their results, confirms any violation by replaying it
in a fresh process, applies the known-findings policy and writes /verif/evidence/<id>.json.

Exit codes: 0 property held on everything explored (KNOWN-FINDING lines may be printed);
            1 violation (a line `VIOLATION property=<id> replay=<path>` is printed);
            2 harness/build trouble (never a VIOLATION line).
"""
import fcntl
import hashlib
import json
import os
import shutil
import subprocess
import sys
import tempfile
import time

V = os.path.dirname(os.path.dirname(os.path.abspath(__file__)))
REPO = os.environ.get("VERIF_REPO", "/repo")
CACHE = os.path.join(V, ".cache")
NW = int(os.environ.get("VERIF_WORKERS", "16"))

ENV = dict(os.environ)
ENV.update({
    "GOFLAGS": "-mod=mod", "GOPROXY": "off", "GOSUMDB": "off", "GOTOOLCHAIN": "local",
    "PATH": "/opt/veriftools/go1.26.8/bin:" + os.environ.get("PATH", ""),
    "GOLOG_LOG_LEVEL": "fatal",
})

# search budgets in seconds (wall, all workers in parallel) and minimisation budgets
BUDGET = {"quick": 40, "thorough": 600}
MIN_BUDGET = {"quick": 45, "thorough": 300}
PER_PROP_BUDGET = {}  # filled from props.json if present

PROPS = json.load(open(os.path.join(V, "tools", "props.json")))


def die(msg, code=2):
    print("HARNESS-ERROR " + msg, flush=True)
    sys.exit(code)


def tree_key():
    h = hashlib.sha256()
    def add_dir(root, exts, skip=()):
        items = []
        for dp, dn, fn in os.walk(root):
            dn[:] = sorted(d for d in dn if d not in (".git", ".cache", ".build", "evidence", "replays", "seeded") and d not in skip)
            for f in sorted(fn):
                if f.endswith(exts):
                    items.append(os.path.join(dp, f))
        for p in items:
            h.update(os.path.relpath(p, root).encode())
            with open(p, "rb") as fh:
                h.update(hashlib.sha256(fh.read()).digest())
    add_dir(REPO, (".go", "go.mod", "go.sum", ".ipldsch"))
    for sub in ("sim", "simrt", "xform"):
        add_dir(os.path.join(V, sub), (".go", ".mod", ".sum", ".tmpl"))
    with open(os.path.join(V, "tools", "mkwork.sh"), "rb") as fh:
        h.update(fh.read())
    return h.hexdigest()[:20]


def build():
    """returns path of the cached sim.test for the current /repo working tree"""
    os.makedirs(CACHE, exist_ok=True)
    key = tree_key()
    d = os.path.join(CACHE, key)
    binp = os.path.join(d, "sim.test")
    lock = open(os.path.join(CACHE, ".lock"), "w")
    fcntl.flock(lock, fcntl.LOCK_EX)
    try:
        if os.path.exists(binp) and os.path.exists(os.path.join(d, "ok")):
            os.utime(d, None)
            return binp, d, True
        t0 = time.time()
        work = tempfile.mkdtemp(prefix="verif-work-")
        try:
            r = subprocess.run([os.path.join(V, "tools", "mkwork.sh"), work], env=ENV, stdout=subprocess.PIPE, stderr=subprocess.STDOUT, text=True)
            if r.returncode != 0:
                sys.stdout.write(r.stdout[-6000:])
                die("build of the transformed tree failed (see above); this is a harness/build problem, not a property violation")
            os.makedirs(d, exist_ok=True)
            shutil.copy2(os.path.join(work, "sim.test"), binp)
            shutil.copy2(os.path.join(work, "xform.stats"), os.path.join(d, "xform.stats"))
            open(os.path.join(d, "ok"), "w").write("built in %.1fs\n" % (time.time() - t0))
        finally:
            shutil.rmtree(work, ignore_errors=True)
        # keep the 3 most recent cache entries
        ents = sorted((e for e in os.listdir(CACHE) if os.path.isdir(os.path.join(CACHE, e))), key=lambda e: os.path.getmtime(os.path.join(CACHE, e)), reverse=True)
        for e in ents[3:]:
            shutil.rmtree(os.path.join(CACHE, e), ignore_errors=True)
        return binp, d, False
    finally:
        fcntl.flock(lock, fcntl.LOCK_UN)


def load_known():
    p = os.path.join(V, "known_findings.json")
    if not os.path.exists(p):
        return {"findings": []}
    return json.load(open(p))


def run_workers(binp, prop, tier, seed, budget_s, min_s, tmpd):
    """spawn NW worker slots; each slot re-spawns processes (leaked goroutines cap runs per process)"""
    deadline = time.time() + budget_s
    slots = [None] * NW
    bases = [0] * NW
    outs = []
    maxruns = int(os.environ.get("VERIF_MAXRUNS", "150"))
    stop = False
    nproc = 0
    while True:
        active = 0
        for w in range(NW):
            p = slots[w]
            if p is not None:
                rc = p["proc"].poll()
                if rc is None:
                    if time.time() > p["kill_at"]:
                        p["proc"].kill()
                        for q in slots:
                            if q:
                                q["proc"].kill()
                        die("worker %d exceeded its watchdog (%ds): a run hangs outside the simulator's control; log tail:\n%s" % (w, p["wd"], tail(p["log"])))
                    active += 1
                    continue
                # finished
                slots[w] = None
                try:
                    o = json.load(open(p["out"]))
                except Exception:
                    for q in slots:
                        if q:
                            q["proc"].kill()
                    die("worker %d (exit %s) wrote no result; log tail:\n%s" % (w, rc, tail(p["log"])))
                outs.append(o)
                if o.get("harness_error"):
                    for q in slots:
                        if q:
                            q["proc"].kill()
                    die("harness error in worker %d: %s" % (w, o["harness_error"][:4000]))
                if o.get("violation"):
                    stop = True
                    for q in slots:  # the first confirmed report wins; the others are still searching or minimising
                        if q:
                            q["proc"].kill()
                            q["proc"].wait()
                    slots = [None] * NW
            if slots[w] is None and not stop and time.time() < deadline:
                rem = deadline - time.time()
                if rem < 1.0:
                    continue
                nproc += 1
                outp = os.path.join(tmpd, "out-%d-%d.json" % (w, nproc))
                logp = os.path.join(tmpd, "log-%d-%d.txt" % (w, nproc))
                env = dict(ENV)
                env.update({"VERIF_PROP": prop, "VERIF_SEED": str(seed), "VERIF_WORKER": str(w), "VERIF_NWORKERS": str(NW),
                            "VERIF_RUN_BASE": str(bases[w]), "VERIF_MAXRUNS": str(maxruns), "VERIF_BUDGET_MS": str(int(rem * 1000)),
                            "VERIF_MIN_MS": str(int(min_s * 1000)), "VERIF_OUT": outp, "VERIF_TIER": tier,
                            "VERIF_KNOWN": os.path.join(V, "known_findings.json"), "VERIF_REPLAY_DIR": os.path.join(V, "replays")})
                bases[w] += maxruns
                wd = int(rem + min_s + 180)
                lf = open(logp, "w")
                proc = subprocess.Popen([binp, "-test.run", "^TestWorker$", "-test.timeout", "0"], env=env, stdout=lf, stderr=subprocess.STDOUT, cwd=tmpd)
                slots[w] = {"proc": proc, "out": outp, "log": logp, "kill_at": time.time() + wd, "wd": wd}
                active += 1
        if active == 0:
            break
        time.sleep(0.05)
    return outs


def tail(path, n=30):
    try:
        return "".join(open(path).readlines()[-n:])
    except Exception:
        return "<no log>"


def replay(binp, path, tmpd, write_trace=None, showlog=False):
    outp = os.path.join(tmpd, "replay-out.json")
    env = dict(ENV)
    env.update({"VERIF_PROP": "replay", "VERIF_REPLAY": path, "VERIF_OUT": outp})
    if write_trace:
        env["VERIF_WRITE_TRACE"] = write_trace
    if showlog:
        env["VERIF_SHOWLOG"] = "1"
    r = subprocess.run([binp, "-test.run", "^TestWorker$", "-test.timeout", "0"], env=env, stdout=subprocess.PIPE, stderr=subprocess.STDOUT, text=True, timeout=900, cwd=tmpd)
    if showlog:
        sys.stdout.write(r.stdout)
    try:
        return json.load(open(outp))
    except Exception:
        die("replay produced no result:\n" + r.stdout[-3000:])


def merge(outs):
    m = {"runs": 0, "steps": 0, "sim_time_ms": 0, "strata": {}, "probes": {}, "faults": {}, "hashes": set(), "distinct": 0,
         "samples": [], "known_hits": {}, "known_detail": {}, "aborted_by": {}, "violation": None, "replay": None, "procs": len(outs)}
    for o in outs:
        m["runs"] += o["runs"]
        m["steps"] += o["steps"]
        m["sim_time_ms"] += o["sim_time_ms"]
        for k in ("strata", "probes", "faults", "known_hits", "aborted_by"):
            for a, b in (o.get(k) or {}).items():
                m[k][a] = m[k].get(a, 0) + b
        for a, b in (o.get("known_detail") or {}).items():
            m["known_detail"].setdefault(a, b)
        m["hashes"].update(o.get("nontrivial_hashes") or [])
        m["distinct"] += o.get("distinct_schedules", 0)
        if len(m["samples"]) < 4:
            m["samples"].extend((o.get("samples") or [])[:2])
        if o.get("violation") and not m["violation"]:
            m["violation"] = o["violation"]
            m["replay"] = o.get("replay")
    return m


def main():
    if len(sys.argv) >= 2 and sys.argv[1] == "--build-only":
        binp, d, cached = build()
        print("built %s (cached=%s)" % (binp, cached))
        sys.exit(0)
    if len(sys.argv) < 3:
        die("usage: check <property> <quick|thorough> [--replay FILE]")
    prop, tier = sys.argv[1], sys.argv[2]
    if prop not in PROPS:
        die("unknown property " + prop)
    meta = PROPS[prop]
    t0 = time.time()
    binp, cdir, cached = build()
    build_s = time.time() - t0
    tmpd = tempfile.mkdtemp(prefix="verif-run-")
    try:
        if "--replay" in sys.argv:
            path = os.path.abspath(sys.argv[sys.argv.index("--replay") + 1])
            res = replay(binp, path, tmpd, showlog=True)
            if res.get("harness_error"):
                die("replay hit a harness error: " + res["harness_error"][:3000])
            if res.get("reproduced"):
                print(res.get("detail", ""))
                print("VIOLATION property=%s replay=%s" % (res["property"], path))
                sys.exit(1)
            print("replay of %s did not reproduce signature %r (got %r)" % (path, res.get("expected"), res.get("signatures")))
            sys.exit(0 if not res.get("signatures") else 2)
        seed = int(os.environ.get("VERIF_SEED", "0") or 0)
        if seed == 0:
            seed = {"quick": 20260923, "thorough": 7302026}[tier]
        budget = float(os.environ.get("VERIF_BUDGET_S", meta.get("budget", {}).get(tier, BUDGET[tier])))
        min_s = MIN_BUDGET[tier]
        known = load_known()
        outs = run_workers(binp, prop, tier, seed, budget, min_s, tmpd)
        m = merge(outs)
        wall = time.time() - t0
        violations = 0
        rc = 0
        if m["violation"]:
            # confirm in a fresh process and store the readable trace next to the tape
            res = replay(binp, m["replay"], tmpd, write_trace=m["replay"])
            if res.get("harness_error"):
                die("replay of %s hit a harness error: %s" % (m["replay"], res["harness_error"][:3000]))
            if not res.get("reproduced"):
                die("violation %r found by the search did not reproduce from its replay file %s (signatures on replay: %r): nondeterminism in the harness" % (m["violation"]["signature"], m["replay"], res.get("signatures")))
            violations = 1
            rc = 1
        # known findings of this property
        kf_lines = []
        for f in known.get("findings", []):
            if f.get("property") == prop and f.get("status") == "known":
                hits = sum(m["known_hits"].get(prop + "|" + sg, 0) for sg in f["signatures"])
                what = f.get("what", "")
                if len(what) > 360:
                    what = what[:357] + "..."
                kf_lines.append("KNOWN-FINDING: property=%s %s [%d listed signature(s), e.g. %s; hit %d times in this run; full text in known_findings.json]" % (prop, what, len(f["signatures"]), f["signatures"][0], hits))
        write_evidence(prop, tier, seed, meta, m, wall, build_s, cached, cdir, violations, known)
        for l in kf_lines:
            print(l)
        print("check %s %s: runs=%d steps=%d sim_time=%.0fs distinct_nontrivial=%d faults=%s wall=%.1fs (build %.1fs%s)" % (
            prop, tier, m["runs"], m["steps"], m["sim_time_ms"] / 1000.0, len(m["hashes"]), json.dumps(m["faults"], sort_keys=True), wall, build_s, ", cached" if cached else ""))
        zero = [p for p in meta.get("probes", []) if m["probes"].get(p, 0) == 0]
        if zero:
            print("WARNING reach probes at zero: " + ", ".join(zero))
        if m["aborted_by"]:
            print("note: runs aborted by violations of other properties (not judged here): " + json.dumps(m["aborted_by"], sort_keys=True)[:1500])
        if rc == 1:
            v = m["violation"]
            print("violation: %s / %s\n%s" % (v["oracle"], v["signature"], v["detail"][:3000]))
            print("VIOLATION property=%s replay=%s" % (prop, m["replay"]))
        elif m["runs"] == 0:
            die("no runs were executed")
        sys.exit(rc)
    finally:
        shutil.rmtree(tmpd, ignore_errors=True)


def write_evidence(prop, tier, seed, meta, m, wall, build_s, cached, cdir, violations, known):
    evdir = os.environ.get("VERIF_EVIDENCE_DIR", os.path.join(V, "evidence"))  # runs against seeded changes write elsewhere
    os.makedirs(evdir, exist_ok=True)
    search_s = max(wall - build_s, 0.001)
    try:
        xstats = open(os.path.join(cdir, "xform.stats")).read().strip()
    except Exception:
        xstats = ""
    cov = {
        "evaluations": m["runs"],
        "distinct_nontrivial": len(m["hashes"]),
        "rule": meta["rule"],
        "samples": m["samples"] or [{"note": "no sample recorded"}],
        "exhaustive": False,
        "strata_runs": m["strata"],
        "scheduling_steps": m["steps"],
        "simulated_time_s": round(m["sim_time_ms"] / 1000.0, 3),
        "runs_per_hour": int(m["runs"] / search_s * 3600),
        "seeds_per_hour": int(m["runs"] / search_s * 3600),
        "distinct_schedule_hashes_all_runs": m["distinct"],
        "faults_fired": m["faults"],
        "reach_probes": m["probes"],
        "worker_processes": m["procs"],
        "workers": NW,
        "real_code": meta.get("real", []),
        "stubs_or_models": meta.get("stubs", []),
        "transform_stats": xstats,
        "known_findings_hit": m["known_hits"],
        "aborted_by_other_properties": m["aborted_by"],
        "build_s": round(build_s, 1),
        "build_cached": cached,
    }
    ev = {
        "property_id": prop, "tier": tier, "seed": seed, "level": meta.get("level", "exploration"),
        "coverage": cov,
        "assumptions": meta.get("assumptions", []),
        "wall_s": round(wall, 2),
        "violations": violations,
    }
    with open(os.path.join(evdir, prop + ".json"), "w") as fh:
        json.dump(ev, fh, indent=1, sort_keys=True)


if __name__ == "__main__":
    main()
