#!/bin/bash
# confirm_mut.sh <name> <patch> <demo_test.go> <pkgdir> <run-regex>
# Confirms in a scratch worktree: suite passes with patch; demo fails with patch; demo passes without.
# Prints one JSON line with the outcome.
NAME=$1; PATCH=$(realpath $2); DEMO=$(realpath $3); PKG=$4; RX=$5
WT=/tmp/mutcheck-$NAME
export GOFLAGS=-mod=mod GOPROXY=off
git -C /repo worktree remove --force $WT 2>/dev/null; rm -rf $WT
git -C /repo worktree add -q --detach $WT HEAD || exit 3
cd $WT
git apply $PATCH || { echo "{\"name\":\"$NAME\",\"error\":\"patch does not apply\"}"; git -C /repo worktree remove --force $WT; exit 3; }
go build ./... > /tmp/mutcheck-$NAME.build 2>&1; BUILD=$?
SUITE=1; TRIES=0
while [ $SUITE -ne 0 ] && [ $TRIES -lt 3 ]; do  # timing-based itests can flake when the machine is loaded
  TRIES=$((TRIES+1)); go test -vet=off -count=1 ./... > /tmp/mutcheck-$NAME.suite 2>&1; SUITE=$?
done
cp $DEMO $PKG/zz_mutdemo_test.go
go test $DEMOFLAGS -vet=off -count=1 -run "$RX" ./$PKG/ > /tmp/mutcheck-$NAME.demo_with 2>&1; WITH=$?
git apply -R $PATCH
go test $DEMOFLAGS -vet=off -count=1 -run "$RX" ./$PKG/ > /tmp/mutcheck-$NAME.demo_without 2>&1; WITHOUT=$?
cd /; git -C /repo worktree remove --force $WT
echo "{\"name\":\"$NAME\",\"build_rc\":$BUILD,\"suite_rc\":$SUITE,\"suite_tries\":$TRIES,\"demo_with_patch_rc\":$WITH,\"demo_without_patch_rc\":$WITHOUT}"
