package sim

// Executable model of go-graphsync v0.18.0's observable contract (see DESIGN §3.3).
// Single-threaded: every method runs under the simrt baton.

import (
	"bytes"
	"context"
	"errors"
	"fmt"
	"io"
	"sort"

	"github.com/ipfs/go-cid"
	"github.com/ipfs/go-graphsync"
	"github.com/ipfs/go-graphsync/donotsendfirstblocks"
	"github.com/ipld/go-ipld-prime"
	"github.com/ipld/go-ipld-prime/datamodel"
	"github.com/ipld/go-ipld-prime/linking"
	cidlink "github.com/ipld/go-ipld-prime/linking/cid"
	datatransfer "github.com/filecoin-project/go-data-transfer/v2"
	"github.com/ipld/go-ipld-prime/node/basicnode"
	"github.com/ipld/go-ipld-prime/traversal"
	"github.com/ipld/go-ipld-prime/traversal/selector"
	"github.com/libp2p/go-libp2p/core/peer"

	"verif/simrt"
)

// ---------------------------------------------------------------- wire

type gsKind int

const (
	gsNew gsKind = iota
	gsCancel
	gsUpdate
	gsResponse
)

type gsItem struct {
	link   cid.Cid
	data   []byte // nil when not sent
	action graphsync.LinkAction
	index  int64
	size   uint64
}

type gsMsg struct {
	kind   gsKind
	id     graphsync.RequestID
	inc    int // incarnation of the request (sim-only; see DESIGN: stale responses are dropped)
	root   cid.Cid
	sel    ipld.Node
	exts   []graphsync.ExtensionData
	status graphsync.ResponseStatusCode
	items  []gsItem
	onSent func(err error) // runs on the sender after the message left (or failed to)
}

type GSNet struct {
	W    *World
	// OnExt, when set, sees every extension list put on / taken off the simulated graphsync wire
	OnExt func(from, to peer.ID, dir string, kind gsKind, exts []graphsync.ExtensionData)
	// Delivered counts graphsync messages delivered (fault triggers)
	Delivered int
	// OnDeliver is called before each delivery (fault placement hook); returning true drops the message as if the connection were cut
	OnDeliver func(from, to peer.ID, m *gsMsg) bool
	eps  map[peer.ID]*GS
	q    map[[2]peer.ID][]*gsMsg
	pump map[[2]peer.ID]bool
	nreq int
}

func NewGSNet(w *World) *GSNet {
	return &GSNet{W: w, eps: map[peer.ID]*GS{}, q: map[[2]peer.ID][]*gsMsg{}, pump: map[[2]peer.ID]bool{}}
}

// Kill removes a peer's endpoint (process death): its requests and responses vanish silently; what peers
// still send to it fails like on a cut connection.
func (n *GSNet) Kill(p peer.ID) {
	if ep := n.eps[p]; ep != nil {
		ep.dead = true
		for _, r := range ep.out {
			r.state = outDone
		}
		ep.out = map[graphsync.RequestID]*outReq{}
		ep.in = map[graphsync.RequestID]*inResp{}
		delete(n.eps, p)
	}
}

// NotifyDisconnect models both sides noticing that the connection a<->b went away: graphsync's request
// manager fires the network error listener for every in-progress outgoing request to that peer.
func (n *GSNet) NotifyDisconnect(a, b peer.ID) {
	for _, pr := range [][2]peer.ID{{a, b}, {b, a}} {
		ep := n.eps[pr[0]]
		if ep == nil {
			continue
		}
		var reqs []*outReq
		for _, r := range ep.out {
			if r.to == pr[1] && r.state != outDone {
				reqs = append(reqs, r)
			}
		}
		sort.Slice(reqs, func(i, j int) bool { return reqs[i].seq < reqs[j].seq })
		for _, r := range reqs {
			rd := reqData{id: r.id, root: r.root, sel: r.sel, exts: r.exts, typ: graphsync.RequestTypeNew}
			err := fmt.Errorf("disconnected from peer %s", pr[1])
			other := pr[1]
			epp := ep
			simrt.Go(func() {
				simrt.SetLabel(epp.Label)
				epp.netErr.each(func(l graphsync.OnNetworkErrorListener) { l(other, rd, err) })
			})
		}
	}
}

func (n *GSNet) send(from, to peer.ID, m *gsMsg) {
	if n.OnExt != nil && len(m.exts) > 0 {
		n.OnExt(from, to, "send", m.kind, m.exts)
	}
	k := [2]peer.ID{from, to}
	n.q[k] = append(n.q[k], m)
	if !n.pump[k] {
		n.pump[k] = true
		simrt.Go(func() { n.runPump(k) })
	}
}

// Busy reports whether a graphsync message is still queued or in the middle of being delivered (its handler - a
// library hook - has not returned).
func (n *GSNet) Busy() bool {
	busy := false
	for _, q := range n.q {
		if len(q) > 0 {
			busy = true
		}
	}
	for _, p := range n.pump {
		if p {
			busy = true
		}
	}
	return busy
}

// FIFO per direction, arbitrary delay: the pump is an ordinary task the driver schedules at will.
func (n *GSNet) runPump(k [2]peer.ID) {
	for len(n.q[k]) > 0 {
		simrt.Yield("gs.deliver")
		if len(n.q[k]) == 0 {
			break
		}
		m := n.q[k][0]
		n.q[k] = n.q[k][1:]
		from, to := k[0], k[1]
		n.Delivered++
		drop := false
		if n.OnDeliver != nil {
			drop = n.OnDeliver(from, to, m)
		}
		if drop || n.W.Net.IsCut(from, to) || n.eps[to] == nil {
			n.W.Logf("gsnet %s->%s DROP kind=%d (connection cut)", short(from), short(to), m.kind)
			if m.onSent != nil {
				m.onSent(errors.New("simgs: connection cut"))
			}
			if ep := n.eps[to]; ep != nil {
				simrt.SetLabel(ep.Label)
				ep.receiverError(from, errors.New("simgs: connection cut"))
			}
			continue
		}
		if m.onSent != nil {
			f := m.onSent
			lbl := ""
			if sep := n.eps[from]; sep != nil {
				lbl = sep.Label
			}
			simrt.Go(func() { simrt.SetLabel(lbl); f(nil) })
		}
		if ep := n.eps[to]; ep != nil {
			simrt.SetLabel(ep.Label)
			if n.OnExt != nil && len(m.exts) > 0 {
				n.OnExt(from, to, "recv", m.kind, m.exts)
			}
			name := "graphsync-callbacks(" + []string{"new-request", "cancel", "update", "response"}[m.kind]
			if dm := dtOf(m.exts); dm != nil {
				name += " carrying " + Summarise(dm).Kind()
			}
			name += ")"
			if n.W.R != nil {
				epp := ep
				n.W.R.Callbacks = append(n.W.R.Callbacks, nil)
				idx := len(n.W.R.Callbacks) - 1
				cb := &Callback{Name: name, Node: ep.Label, Task: n.W.S.CurrentTask(), Step: n.W.S.Steps, Dead: func() bool { return epp.dead }}
				n.W.R.Callbacks[idx] = cb
				ep.receive(from, m)
				cb.Done = true
			} else {
				ep.receive(from, m)
			}
		}
	}
	n.pump[k] = false
}

// ---------------------------------------------------------------- endpoint

type hookReg[T any] struct {
	next int
	m    map[int]T
	keys []int
}

func (h *hookReg[T]) add(f T) graphsync.UnregisterHookFunc {
	if h.m == nil {
		h.m = map[int]T{}
	}
	h.next++
	k := h.next
	h.m[k] = f
	h.keys = append(h.keys, k)
	return func() {
		delete(h.m, k)
		for i, x := range h.keys {
			if x == k {
				h.keys = append(h.keys[:i], h.keys[i+1:]...)
				break
			}
		}
	}
}
// HookBegin records, per task, the scheduling step at which the graphsync hook invocation it is currently
// running began (0 = not inside a hook). Harness oracles use it to tell callbacks that began before a cleanup
// from callbacks that began after it.
var HookBegin = map[*simrt.Task]int{}

func (h *hookReg[T]) each(f func(T)) {
	var t *simrt.Task
	if s := simrt.Current(); s != nil {
		t = s.CurrentTask()
		if HookBegin[t] == 0 {
			HookBegin[t] = s.Steps + 1
			defer delete(HookBegin, t)
		}
	}
	for _, k := range append([]int(nil), h.keys...) {
		if g, ok := h.m[k]; ok {
			f(g)
		}
	}
}

type GS struct {
	Label   string
	dead    bool
	// Calls records the GraphExchange API calls made by the transport (harness oracles)
	Calls   []GSCall
	net     *GSNet
	w       *World
	self    peer.ID
	lsys    ipld.LinkSystem
	persist map[string]ipld.LinkSystem

	inReqHooks     hookReg[graphsync.OnIncomingRequestHook]
	inRespHooks    hookReg[graphsync.OnIncomingResponseHook]
	inBlockHooks   hookReg[graphsync.OnIncomingBlockHook]
	outReqHooks    hookReg[graphsync.OnOutgoingRequestHook]
	outBlockHooks  hookReg[graphsync.OnOutgoingBlockHook]
	updatedHooks   hookReg[graphsync.OnRequestUpdatedHook]
	outProcessing  hookReg[graphsync.OnRequestProcessingListener]
	inProcessing   hookReg[graphsync.OnRequestProcessingListener]
	completed      hookReg[graphsync.OnResponseCompletedListener]
	reqCancelled   hookReg[graphsync.OnRequestorCancelledListener]
	blockSent      hookReg[graphsync.OnBlockSentListener]
	netErr         hookReg[graphsync.OnNetworkErrorListener]
	recvNetErr     hookReg[graphsync.OnReceiverNetworkErrorListener]

	out map[graphsync.RequestID]*outReq
	in  map[graphsync.RequestID]*inResp
	// dedup: links already sent per (peer, dedup key)
	sentLinks map[string]map[cid.Cid]int
	ended     map[graphsync.RequestID]int
	rawNext   bool
	// Completions logs every firing of the completed-response listeners (responder side)
	Completions []GSCompletion
	// Terminations logs how each outgoing request ended (requester side)
	Terminations []GSTermination
	// inHistory logs every incoming new request (also re-sends after a requester unpause)
	inHistory []inRec
	// OnWire logs, per incoming request, the block indexes that were put on the wire (responder side)
	OnWire map[graphsync.RequestID][]int64
}

type inRec struct {
	begin int // step at which the request arrived
	step int
	id   graphsync.RequestID
	exts []graphsync.ExtensionData
}

type GSCompletion struct {
	Step   int
	ID     graphsync.RequestID
	Status graphsync.ResponseStatusCode
}
type GSTermination struct {
	Step int
	ID   graphsync.RequestID
	Err  error
}

func (n *GSNet) NewGS(self peer.ID, lsys ipld.LinkSystem) *GS {
	g := &GS{net: n, w: n.W, self: self, lsys: lsys, persist: map[string]ipld.LinkSystem{},
		out: map[graphsync.RequestID]*outReq{}, in: map[graphsync.RequestID]*inResp{}, sentLinks: map[string]map[cid.Cid]int{}, ended: map[graphsync.RequestID]int{}}
	n.eps[self] = g
	return g
}

type GSCall struct {
	Life int
	gs   *GS
	Step int
	Kind string // request, cancel, pause, unpause, update, register, unregister
	ID   graphsync.RequestID
	To   peer.ID
	Name string
	Skip int64
	Exts []graphsync.ExtensionData
	Err  string
}

// EndedBy reports whether the request this call created had terminated by the given step.
func (c *GSCall) EndedBy(step int) bool {
	if c.gs == nil {
		return false
	}
	e, ok := c.gs.ended[c.ID]
	return ok && e <= step
}

// DescribeFor lists the model's requests carrying tid (debugging aid for oracle messages).
func (g *GS) DescribeFor(tid datatransfer.TransferID) string {
	out := ""
	for _, id := range sortedBy(g.out, func(i graphsync.RequestID) string { return i.String() }) {
		r := g.out[id]
		if m := dtOf(r.exts); m != nil && m.TransferID() == tid {
			out += fmt.Sprintf("out{id=%s state=%d sent=%v inc=%d traversed=%d remoteDone=%v pauseReq=%v} ", r.id.String()[30:], r.state, r.sent, r.inc, r.traversed, r.remoteDone, r.pauseReq)
		}
	}
	for _, id := range sortedBy(g.in, func(i graphsync.RequestID) string { return i.String() }) {
		x := g.in[id]
		if m := dtOf(x.req.exts); m != nil && m.TransferID() == tid {
			out += fmt.Sprintf("in{id=%s state=%d inc=%d pos=%d pauseSig=%v errSig=%v stepping=%v} ", x.id.String()[30:], x.state, x.inc, x.pos, x.pauseSig, x.errSig, x.stepping)
		}
	}
	return out
}

// ActiveFor reports whether a live (not finished, not requester-cancelled) graphsync request carries the
// data-transfer id tid on this endpoint.
func (g *GS) ActiveFor(tid datatransfer.TransferID) bool {
	// (no early exit and no dependence on map order: determinism)
	found := false
	for _, r := range g.out {
		if r.state != outDone {
			if m := dtOf(r.exts); m != nil && m.TransferID() == tid {
				found = true
			}
		}
	}
	for _, x := range g.in {
		if x.state != inCompleting {
			if m := dtOf(x.req.exts); m != nil && m.TransferID() == tid {
				found = true
			}
		}
	}
	return found
}

func (g *GS) logCall(c GSCall) int {
	c.gs = g
	c.Step = g.w.S.Steps
	g.Calls = append(g.Calls, c)
	if LogAll {
		ids := ""
		if c.Kind != "register" && c.Kind != "unregister" {
			ids = c.ID.String()
		}
		g.w.Logf("gs %s API %s id=%s name=%s", short(g.self), c.Kind, ids, c.Name)
	}
	return len(g.Calls) - 1
}

func (g *GS) setErr(i int, err *error) {
	if *err != nil {
		g.Calls[i].Err = (*err).Error()
		if LogAll {
			g.w.Logf("gs %s API %s -> %v", short(g.self), g.Calls[i].Kind, *err)
		}
	}
}

// ---- request / response data objects handed to hooks

type reqData struct {
	id   graphsync.RequestID
	root cid.Cid
	sel  ipld.Node
	exts []graphsync.ExtensionData
	typ  graphsync.RequestType
}

func (r reqData) ID() graphsync.RequestID        { return r.id }
func (r reqData) Root() cid.Cid                  { return r.root }
func (r reqData) Selector() ipld.Node            { return r.sel }
func (r reqData) Priority() graphsync.Priority   { return 0 }
func (r reqData) Type() graphsync.RequestType    { return r.typ }
func (r reqData) Extension(n graphsync.ExtensionName) (datamodel.Node, bool) {
	for _, e := range r.exts {
		if e.Name == n {
			return e.Data, true
		}
	}
	return nil, false
}

type respData struct {
	id     graphsync.RequestID
	status graphsync.ResponseStatusCode
	exts   []graphsync.ExtensionData
}

func (r respData) RequestID() graphsync.RequestID        { return r.id }
func (r respData) Status() graphsync.ResponseStatusCode  { return r.status }
func (r respData) Metadata() graphsync.LinkMetadata      { return nil }
func (r respData) Extension(n graphsync.ExtensionName) (datamodel.Node, bool) {
	for _, e := range r.exts {
		if e.Name == n {
			return e.Data, true
		}
	}
	return nil, false
}

type blockData struct {
	link   cid.Cid
	size   uint64
	onWire uint64
	index  int64
}

func (b blockData) Link() ipld.Link         { return cidlink.Link{Cid: b.link} }
func (b blockData) BlockSize() uint64       { return b.size }
func (b blockData) BlockSizeOnWire() uint64 { return b.onWire }
func (b blockData) Index() int64            { return b.index }

// wire round trip of an extension node: what the remote sees is decoded dag-cbor, as with real graphsync
func wireNode(n datamodel.Node) datamodel.Node {
	if n == nil {
		return nil
	}
	var buf bytes.Buffer
	if err := ipld.EncodeStreaming(&buf, n, dagcborEncode); err != nil {
		panic(fmt.Sprintf("simgs: extension not encodable: %v", err))
	}
	nb := basicnode.Prototype.Any.NewBuilder()
	if err := dagcborDecode(nb, &buf); err != nil {
		panic(fmt.Sprintf("simgs: extension not decodable: %v", err))
	}
	return nb.Build()
}

func wireExts(in []graphsync.ExtensionData) []graphsync.ExtensionData {
	out := make([]graphsync.ExtensionData, len(in))
	for i, e := range in {
		out[i] = graphsync.ExtensionData{Name: e.Name, Data: wireNode(e.Data)}
	}
	return out
}

// ---------------------------------------------------------------- traversal helper

type visit struct {
	link cid.Cid
	data []byte // nil: missing
}

var errStopWalk = errors.New("simgs: stop walk")

// walk performs the selector traversal over lsys and returns the blocks visited in order.
// It stops after `limit` loads (limit<0: no limit). Missing blocks are recorded with nil data
// and their subtree is skipped (traversal.SkipMe), exactly like graphsync's executors do.
func walk(lsys ipld.LinkSystem, root cid.Cid, sel ipld.Node, limit int, have func(i int, c cid.Cid) ([]byte, bool)) (visits []visit, complete bool, err error) {
	parsed, err := selector.ParseSelector(sel)
	if err != nil {
		return nil, false, err
	}
	ls := cidlink.DefaultLinkSystem()
	ls.TrustedStorage = true
	ls.StorageReadOpener = func(lc linking.LinkContext, l datamodel.Link) (io.Reader, error) {
		c := l.(cidlink.Link).Cid
		if limit >= 0 && len(visits) >= limit {
			return nil, errStopWalk
		}
		data, ok := have(len(visits), c)
		if !ok {
			visits = append(visits, visit{link: c})
			return nil, traversal.SkipMe{}
		}
		visits = append(visits, visit{link: c, data: data})
		return bytes.NewReader(data), nil
	}
	rootLink := cidlink.Link{Cid: root}
	nd, lerr := ls.Load(linking.LinkContext{Ctx: context.Background()}, rootLink, basicnode.Prototype.Any)
	if lerr != nil {
		if errors.Is(lerr, errStopWalk) {
			return visits, false, nil
		}
		// root missing: traversal is complete with a first-block error
		return visits, true, nil
	}
	werr := traversal.Progress{Cfg: &traversal.Config{Ctx: context.Background(), LinkSystem: ls,
		LinkTargetNodePrototypeChooser: func(datamodel.Link, linking.LinkContext) (datamodel.NodePrototype, error) {
			return basicnode.Prototype.Any, nil
		}}}.WalkAdv(nd, parsed, func(traversal.Progress, datamodel.Node, traversal.VisitReason) error { return nil })
	if werr != nil {
		if errors.Is(werr, errStopWalk) {
			return visits, false, nil
		}
		return visits, true, werr
	}
	return visits, true, nil
}

func loadLocal(lsys ipld.LinkSystem, c cid.Cid) ([]byte, bool) {
	if lsys.StorageReadOpener == nil {
		return nil, false
	}
	r, err := lsys.StorageReadOpener(linking.LinkContext{Ctx: context.Background()}, cidlink.Link{Cid: c})
	if err != nil {
		return nil, false
	}
	b, err := io.ReadAll(r)
	if err != nil {
		return nil, false
	}
	return b, true
}

func storeLocal(lsys ipld.LinkSystem, c cid.Cid, data []byte) error {
	w, commit, err := lsys.StorageWriteOpener(linking.LinkContext{Ctx: context.Background()})
	if err != nil {
		return err
	}
	if _, err := w.Write(data); err != nil {
		return err
	}
	return commit(cidlink.Link{Cid: c})
}

// ---------------------------------------------------------------- requester side

type outState int

const (
	outQueued outState = iota
	outRunning
	outPaused
	outDone
)

type outReq struct {
	id         graphsync.RequestID
	to         peer.ID
	root       cid.Cid
	sel        ipld.Node
	exts       []graphsync.ExtensionData
	lsys       ipld.LinkSystem
	respCh     chan graphsync.ResponseProgress
	errCh      chan error
	state      outState
	started    bool
	traversed  int       // blocks verified so far
	prefix     []visit   // what was traversed (for re-walks)
	skips      map[int]bool
	remote     []gsItem
	remoteDone bool
	sent       bool // network request outstanding in this incarnation
	inc        int
	pauseReq   bool
	callerSkip int64
	last       respData
	termErr    error
	stepping   bool
	seq        int
	lastEmitted error // last non-terminal error put on the error channel
}

func (g *GS) newRequestID() graphsync.RequestID {
	g.net.nreq++
	b := make([]byte, 16)
	b[0] = 0x51
	b[6] = 0x40 // uuid v4 marker, cosmetic
	b[8] = 0x80
	b[14] = byte(g.net.nreq >> 8)
	b[15] = byte(g.net.nreq)
	id, err := graphsync.ParseRequestID(b)
	if err != nil {
		panic(err)
	}
	return id
}

type outReqActions struct {
	persist string
	maxLinks uint64
}

func (a *outReqActions) UsePersistenceOption(name string) { a.persist = name }
func (a *outReqActions) UseLinkTargetNodePrototypeChooser(traversal.LinkTargetNodePrototypeChooser) {}
func (a *outReqActions) MaxLinks(n uint64) { a.maxLinks = n }

// RequestRaw issues a request the way a second graphsync instance with the same peer identity would: the
// outgoing-request hooks registered on this endpoint (the node's own data-transfer transport) do not see it.
func (g *GS) RequestRaw(ctx context.Context, p peer.ID, root ipld.Link, sel ipld.Node, exts ...graphsync.ExtensionData) (<-chan graphsync.ResponseProgress, <-chan error) {
	g.rawNext = true
	return g.Request(ctx, p, root, sel, exts...)
}

func (g *GS) Request(ctx context.Context, p peer.ID, root ipld.Link, sel ipld.Node, exts ...graphsync.ExtensionData) (<-chan graphsync.ResponseProgress, <-chan error) {
	raw := g.rawNext
	g.rawNext = false
	simrt.Yield("gs.request")
	r := &outReq{id: g.newRequestID(), to: p, root: root.(cidlink.Link).Cid, sel: sel, exts: exts, lsys: g.lsys,
		respCh: make(chan graphsync.ResponseProgress), errCh: make(chan error, 64), skips: map[int]bool{}, seq: g.net.nreq}
	if g.dead {
		close(r.respCh)
		close(r.errCh)
		return r.respCh, r.errCh
	}
	r.last = respData{id: r.id, status: graphsync.RequestAcknowledged}
	if _, err := selector.ParseSelector(sel); err != nil {
		r.errCh <- err
		close(r.respCh)
		close(r.errCh)
		return r.respCh, r.errCh
	}
	rd := reqData{id: r.id, root: r.root, sel: sel, exts: exts, typ: graphsync.RequestTypeNew}
	acts := &outReqActions{}
	if !raw {
		g.outReqHooks.each(func(h graphsync.OnOutgoingRequestHook) { h(p, rd, acts) })
	}
	if acts.persist != "" {
		ls, ok := g.persist[acts.persist]
		if !ok {
			r.errCh <- errors.New("unknown persistence option")
			close(r.respCh)
			close(r.errCh)
			return r.respCh, r.errCh
		}
		r.lsys = ls
		r.exts = append(append([]graphsync.ExtensionData(nil), exts...), graphsync.ExtensionData{Name: graphsync.ExtensionDeDupByKey, Data: basicnode.NewString(acts.persist)})
	}
	if d, ok := rd.Extension(graphsync.ExtensionsDoNotSendFirstBlocks); ok {
		if n, err := donotsendfirstblocks.DecodeDoNotSendFirstBlocks(d); err == nil {
			r.callerSkip = n
		}
	}
	g.out[r.id] = r
	g.logCall(GSCall{Kind: "request", ID: r.id, To: p, Skip: r.callerSkip, Exts: exts})
	if LogAll {
		g.w.Logf("gs %s Request id=%s to=%s skip=%d", short(g.self), r.id.String()[30:], short(p), r.callerSkip)
	}
	// request cancellation through its context
	if ctx.Done() != nil {
		simrt.Go(func() {
			cs := []simrt.Case{simrt.R(ctx.Done())}
			simrt.Select(cs, false)
			if r.state != outDone {
				g.cancelOut(r, graphsync.RequestClientCancelledErr{})
			}
		})
	}
	g.kickOut(r)
	return r.respCh, r.errCh
}

func (g *GS) kickOut(r *outReq) {
	if r.stepping || r.state == outDone || r.state == outPaused {
		return
	}
	r.stepping = true
	simrt.Go(func() {
		defer func() { r.stepping = false }()
		g.runOut(r)
	})
}

func (g *GS) terminateOut(r *outReq) {
	if r.state == outDone {
		return
	}
	r.state = outDone
	g.ended[r.id] = g.w.S.Steps
	te := r.termErr
	if te == nil {
		te = r.lastEmitted // consumers see the last error on the channel
	}
	g.Terminations = append(g.Terminations, GSTermination{Step: g.w.S.Steps, ID: r.id, Err: te})
	if r.termErr != nil {
		select {
		case r.errCh <- r.termErr:
		default:
		}
	}
	delete(g.out, r.id)
	close(r.respCh)
	close(r.errCh)
	if LogAll {
		g.w.Logf("gs %s request %s terminated err=%v", short(g.self), r.id.String()[30:], r.termErr)
	}
}

func (g *GS) cancelOut(r *outReq, err error) {
	g.net.send(g.self, r.to, &gsMsg{kind: gsCancel, id: r.id})
	if r.termErr == nil {
		r.termErr = err
	}
	g.terminateOut(r)
}

type inBlockActions struct {
	err   error
	pause bool
	exts  []graphsync.ExtensionData
}

func (a *inBlockActions) TerminateWithError(err error)                       { a.err = err }
func (a *inBlockActions) UpdateRequestWithExtensions(e ...graphsync.ExtensionData) { a.exts = append(a.exts, e...) }
func (a *inBlockActions) PauseRequest()                                      { a.pause = true }

// runOut advances the requester's traversal as far as currently possible.
func (g *GS) runOut(r *outReq) {
	if r.state == outDone || r.state == outPaused {
		return
	}
	if !r.started {
		r.started = true
		rd := reqData{id: r.id, root: r.root, sel: r.sel, exts: r.exts, typ: graphsync.RequestTypeNew}
		g.outProcessing.each(func(l graphsync.OnRequestProcessingListener) { l(r.to, rd, len(g.out)) })
		if r.state == outDone || r.state == outPaused {
			return // cancelled or paused from inside a listener
		}
	}
	r.state = outRunning
	for r.state == outRunning {
		// what is the next link of the traversal?
		visits, complete, werr := walk(r.lsys, r.root, r.sel, r.traversed+1, func(i int, c cid.Cid) ([]byte, bool) {
			if i < r.traversed {
				if r.skips[i] {
					return nil, false
				}
				return r.prefix[i].data, true
			}
			// the current request: always "found" so that we learn the link; content decided below
			return []byte{}, true
		})
		if werr != nil && len(visits) <= r.traversed {
			r.termErr = werr
			g.terminateOut(r)
			return
		}
		if len(visits) <= r.traversed {
			if !complete {
				panic("simgs: walk neither complete nor advanced")
			}
			// traversal complete
			if r.sent && !r.remoteDone {
				// real graphsync also finishes locally; tell the responder nothing
			}
			g.terminateOut(r)
			return
		}
		link := visits[r.traversed].link
		var data []byte
		var onWire bool
		found := false
		if r.sent {
			// remote online: consume remote items; items of the already verified prefix are dropped
			for len(r.remote) > 0 && int(r.remote[0].index) <= r.traversed {
				r.remote = r.remote[1:]
			}
			if len(r.remote) == 0 {
				if !r.remoteDone {
					return // wait for more responses
				}
				// remote finished: fall back to local
				if b, ok := loadLocal(r.lsys, link); ok {
					data, found = b, true
				}
			} else {
				it := r.remote[0]
				r.remote = r.remote[1:]
				if it.link != link {
					if LogAll {
						g.w.Logf("gs %s MISMATCH traversed=%d item.idx=%d item.link=%s want=%s remaining=%d", short(g.self), r.traversed, it.index, it.link, link, len(r.remote))
					}
					r.termErr = graphsync.RemoteIncorrectResponseError{LocalLink: cidlink.Link{Cid: link}, RemoteLink: cidlink.Link{Cid: it.link}}
					g.cancelOut(r, r.termErr)
					return
				}
				if it.data != nil {
					if err := storeLocal(r.lsys, link, it.data); err != nil {
						r.termErr = err
						g.cancelOut(r, err)
						return
					}
					data, found, onWire = it.data, true, true
				} else if b, ok := loadLocal(r.lsys, link); ok {
					data, found = b, true
				}
			}
		} else if b, ok := loadLocal(r.lsys, link); ok {
			data, found = b, true
		} else {
			// first missing block: go to the network
			skip := r.callerSkip
			if skip < int64(r.traversed) {
				skip = int64(r.traversed)
			}
			exts := append([]graphsync.ExtensionData(nil), r.exts...)
			if skip > 0 {
				exts = replaceExt(exts, graphsync.ExtensionData{Name: graphsync.ExtensionsDoNotSendFirstBlocks, Data: donotsendfirstblocks.EncodeDoNotSendFirstBlocks(skip)})
			}
			r.sent = true
			r.inc++
			r.remote = nil
			r.remoteDone = false
			if LogAll {
				g.w.Logf("gs %s send request %s inc=%d skip=%d", short(g.self), r.id.String()[30:], r.inc, skip)
			}
			g.net.send(g.self, r.to, &gsMsg{kind: gsNew, id: r.id, inc: r.inc, root: r.root, sel: r.sel, exts: wireExts(exts)})
			return
		}
		if !found {
			select {
			case r.errCh <- graphsync.RemoteMissingBlockErr{Link: cidlink.Link{Cid: link}}:
				r.lastEmitted = graphsync.RemoteMissingBlockErr{Link: cidlink.Link{Cid: link}}
			default:
			}
			r.prefix = append(r.prefix, visit{link: link})
			r.skips[r.traversed] = true
			r.traversed++
			continue
		}
		r.prefix = append(r.prefix, visit{link: link, data: data})
		r.traversed++
		bd := blockData{link: link, size: uint64(len(data)), index: int64(r.traversed)}
		if onWire {
			bd.onWire = bd.size
		}
		acts := &inBlockActions{}
		g.inBlockHooks.each(func(h graphsync.OnIncomingBlockHook) { h(r.to, r.last, bd, acts) })
		if r.state == outDone {
			return // cancelled from inside the hook
		}
		if len(acts.exts) > 0 {
			g.net.send(g.self, r.to, &gsMsg{kind: gsUpdate, id: r.id, inc: r.inc, exts: wireExts(acts.exts)})
		}
		if acts.err != nil {
			g.cancelOut(r, acts.err)
			return
		}
		if acts.pause || r.pauseReq {
			r.pauseReq = false
			g.pauseOut(r)
			return
		}
		simrt.Yield("gs.block")
	}
}

func (g *GS) pauseOut(r *outReq) {
	r.state = outPaused
	if r.sent {
		g.net.send(g.self, r.to, &gsMsg{kind: gsCancel, id: r.id, inc: r.inc})
	}
	r.sent = false
	r.remote = nil
	if LogAll {
		g.w.Logf("gs %s request %s paused at %d", short(g.self), r.id.String()[30:], r.traversed)
	}
}

func replaceExt(exts []graphsync.ExtensionData, e graphsync.ExtensionData) []graphsync.ExtensionData {
	for i := range exts {
		if exts[i].Name == e.Name {
			exts[i] = e
			return exts
		}
	}
	return append(exts, e)
}

type inRespActions struct {
	err  error
	exts []graphsync.ExtensionData
}

func (a *inRespActions) TerminateWithError(err error)                             { a.err = err }
func (a *inRespActions) UpdateRequestWithExtensions(e ...graphsync.ExtensionData) { a.exts = append(a.exts, e...) }

func (g *GS) receiveResponse(from peer.ID, m *gsMsg) {
	r := g.out[m.id]
	if r == nil || r.to != from || r.state == outDone {
		return
	}
	rd := respData{id: m.id, status: m.status, exts: m.exts}
	acts := &inRespActions{}
	g.inRespHooks.each(func(h graphsync.OnIncomingResponseHook) { h(from, rd, acts) })
	if len(acts.exts) > 0 {
		g.net.send(g.self, from, &gsMsg{kind: gsUpdate, id: m.id, inc: r.inc, exts: wireExts(acts.exts)})
	}
	if r.state == outDone {
		return
	}
	if acts.err != nil {
		g.cancelOut(r, acts.err)
		return
	}
	r.last = rd
	if m.inc != r.inc || !r.sent {
		return // stale incarnation or offline: items dropped (real: "refuse to queue items when the request is offline")
	}
	r.remote = append(r.remote, m.items...)
	if gsTerminal(m.status) {
		r.remoteDone = true
		if isFailure(m.status) && r.termErr == nil {
			r.termErr = statusErr(m.status)
			g.terminateOut(r)
			return
		}
	}
	g.kickOut(r)
}

func gsTerminal(s graphsync.ResponseStatusCode) bool { return s >= 20 }
func isFailure(s graphsync.ResponseStatusCode) bool  { return s >= 30 }
func statusErr(s graphsync.ResponseStatusCode) error {
	switch s {
	case graphsync.RequestFailedBusy:
		return graphsync.RequestFailedBusyErr{}
	case graphsync.RequestFailedContentNotFound:
		return graphsync.RequestFailedContentNotFoundErr{}
	case graphsync.RequestFailedLegal:
		return graphsync.RequestFailedLegalErr{}
	case graphsync.RequestFailedUnknown:
		return graphsync.RequestFailedUnknownErr{}
	case graphsync.RequestCancelled:
		return graphsync.RequestCancelledErr{}
	default:
		return fmt.Errorf("unknown response status code: %d", s)
	}
}

// ---------------------------------------------------------------- responder side

type inState int

const (
	inQueued inState = iota
	inRunning
	inPaused
	inCompleting
)

type inResp struct {
	id        graphsync.RequestID
	from      peer.ID
	inc       int
	req       reqData
	lsys      ipld.LinkSystem
	state     inState
	started   bool
	pos       int // links traversed so far in this incarnation
	skipFirst int64
	dedup     string
	updates   []reqData
	pauseSig  bool
	errSig    error
	pending   []graphsync.ExtensionData // extensions to attach to the next message
	allFound  bool
	stepping  bool
	refs      map[cid.Cid]int // links this incarnation recorded in the peer's link tracker
}

type inReqActions struct {
	ctx       context.Context
	exts      []graphsync.ExtensionData
	persist   string
	err       error
	validated bool
	paused    bool
	maxLinks  uint64
}

func (a *inReqActions) AugmentContext(f func(context.Context) context.Context) { a.ctx = f(a.ctx) }
func (a *inReqActions) SendExtensionData(e graphsync.ExtensionData)           { a.exts = append(a.exts, e) }
func (a *inReqActions) UsePersistenceOption(name string)                      { a.persist = name }
func (a *inReqActions) UseLinkTargetNodePrototypeChooser(traversal.LinkTargetNodePrototypeChooser) {}
func (a *inReqActions) TerminateWithError(err error)                          { a.err = err }
func (a *inReqActions) ValidateRequest()                                      { a.validated = true }
func (a *inReqActions) PauseResponse()                                        { a.paused = true }
func (a *inReqActions) MaxLinks(n uint64)                                     { a.maxLinks = n }

func (g *GS) receive(from peer.ID, m *gsMsg) {
	switch m.kind {
	case gsResponse:
		g.receiveResponse(from, m)
	case gsNew:
		g.receiveNew(from, m)
	case gsCancel:
		g.receiveCancel(from, m)
	case gsUpdate:
		g.receiveUpdate(from, m)
	}
}

func (g *GS) sendResp(x *inResp, status graphsync.ResponseStatusCode, items []gsItem, exts []graphsync.ExtensionData) {
	exts = append(append([]graphsync.ExtensionData(nil), x.pending...), exts...)
	x.pending = nil
	req := x.req
	from := x.from
	id := x.id
	msg := &gsMsg{kind: gsResponse, id: id, inc: x.inc, status: status, items: items, exts: wireExts(exts)}
	msg.onSent = func(err error) {
		if err != nil {
			// network error: listeners, and the response is closed without a completed notification
			if cur := g.in[id]; cur == x {
				delete(g.in, id)
			}
			g.releaseDedup(x) // CloseWithNetworkError -> terminateRequest -> FinishTracking
			g.netErr.each(func(l graphsync.OnNetworkErrorListener) { l(from, req, err) })
			return
		}
		for _, it := range items {
			bd := blockData{link: it.link, size: it.size, index: it.index}
			if it.data != nil {
				bd.onWire = it.size
			}
			g.blockSent.each(func(l graphsync.OnBlockSentListener) { l(from, req, bd) })
		}
		if gsTerminal(status) {
			if cur := g.in[id]; cur == x {
				delete(g.in, id)
			}
			g.Completions = append(g.Completions, GSCompletion{Step: g.w.S.Steps, ID: id, Status: status})
			g.completed.each(func(l graphsync.OnResponseCompletedListener) { l(from, req, status) })
		}
	}
	g.net.send(g.self, from, msg)
}

func (g *GS) receiveNew(from peer.ID, m *gsMsg) {
	hi := len(g.inHistory)
	g.inHistory = append(g.inHistory, inRec{begin: g.w.S.Steps, step: g.w.S.Steps, id: m.id, exts: m.exts})
	// the step at which the incoming-request hooks have returned (when the application knows the request)
	defer func() { g.inHistory[hi].step = g.w.S.Steps }()
	rd := reqData{id: m.id, root: m.root, sel: m.sel, exts: m.exts, typ: graphsync.RequestTypeNew}
	acts := &inReqActions{ctx: context.Background()}
	g.inReqHooks.each(func(h graphsync.OnIncomingRequestHook) { h(from, rd, acts) })
	x := &inResp{id: m.id, from: from, inc: m.inc, req: rd, lsys: g.lsys, allFound: true}
	if acts.persist != "" {
		if ls, ok := g.persist[acts.persist]; ok {
			x.lsys = ls
		}
	}
	g.in[m.id] = x
	switch {
	case acts.err != nil:
		x.state = inCompleting
		g.sendResp(x, graphsync.RequestFailedUnknown, nil, acts.exts)
		return
	case !acts.validated:
		x.state = inCompleting
		g.sendResp(x, graphsync.RequestRejected, nil, acts.exts)
		return
	}
	if d, ok := rd.Extension(graphsync.ExtensionDeDupByKey); ok {
		if s, err := d.AsString(); err == nil {
			x.dedup = s
		}
	}
	if d, ok := rd.Extension(graphsync.ExtensionsDoNotSendFirstBlocks); ok {
		if n, err := donotsendfirstblocks.DecodeDoNotSendFirstBlocks(d); err == nil {
			x.skipFirst = n
		}
	}
	if acts.paused {
		x.state = inPaused
		g.sendResp(x, graphsync.RequestPaused, nil, acts.exts)
		return
	}
	x.state = inQueued
	if len(acts.exts) > 0 {
		g.sendResp(x, graphsync.PartialResponse, nil, acts.exts)
	}
	g.kickIn(x)
}

func (g *GS) kickIn(x *inResp) {
	if x.stepping || x.state == inCompleting || x.state == inPaused {
		return
	}
	x.stepping = true
	simrt.Go(func() {
		defer func() { x.stepping = false }()
		g.runIn(x)
	})
}

type outBlockActions struct {
	exts  []graphsync.ExtensionData
	err   error
	pause bool
}

func (a *outBlockActions) SendExtensionData(e graphsync.ExtensionData) { a.exts = append(a.exts, e) }
func (a *outBlockActions) TerminateWithError(err error)                 { a.err = err }
func (a *outBlockActions) PauseResponse()                               { a.pause = true }

type updActions struct {
	exts    []graphsync.ExtensionData
	err     error
	unpause bool
}

func (a *updActions) TerminateWithError(err error)                 { a.err = err }
func (a *updActions) SendExtensionData(e graphsync.ExtensionData) { a.exts = append(a.exts, e) }
func (a *updActions) UnpauseResponse()                             { a.unpause = true }

func (g *GS) dedupKey(x *inResp) string { return string(x.from) + "/" + x.dedup }

func (g *GS) finishIn(x *inResp, status graphsync.ResponseStatusCode, exts []graphsync.ExtensionData) {
	x.state = inCompleting
	g.releaseDedup(x)
	g.sendResp(x, status, nil, exts)
}

func (g *GS) runIn(x *inResp) {
	if g.in[x.id] != x || x.state == inCompleting || x.state == inPaused {
		return
	}
	if !x.started {
		x.started = true
		g.inProcessing.each(func(l graphsync.OnRequestProcessingListener) { l(x.from, x.req, len(g.in)) })
		if g.in[x.id] != x || x.state == inCompleting || x.state == inPaused {
			return
		}
	}
	x.state = inRunning
	for x.state == inRunning && g.in[x.id] == x {
		var exts []graphsync.ExtensionData
		// checkForUpdates
		pausedBySignal := false
		if x.pauseSig {
			x.pauseSig = false
			pausedBySignal = true
		}
		if x.errSig != nil {
			err := x.errSig
			x.errSig = nil
			if errors.Is(err, errCancelledByCommand) {
				g.finishIn(x, graphsync.RequestCancelled, nil)
			} else {
				g.finishIn(x, graphsync.RequestFailedUnknown, nil)
			}
			return
		}
		for len(x.updates) > 0 {
			u := x.updates[0]
			x.updates = x.updates[1:]
			ua := &updActions{}
			g.updatedHooks.each(func(h graphsync.OnRequestUpdatedHook) { h(x.from, x.req, u, ua) })
			exts = append(exts, ua.exts...)
			if ua.err != nil {
				g.finishIn(x, graphsync.RequestFailedUnknown, exts)
				return
			}
		}
		visits, complete, _ := walk(x.lsys, x.req.root, x.req.sel, x.pos+1, func(i int, c cid.Cid) ([]byte, bool) {
			return loadLocal(x.lsys, c)
		})
		if len(visits) <= x.pos {
			_ = complete
			status := graphsync.RequestCompletedFull
			if !x.allFound {
				status = graphsync.RequestCompletedPartial
			}
			if x.pos == 0 {
				status = graphsync.RequestFailedContentNotFound
			}
			g.finishIn(x, status, exts)
			return
		}
		v := visits[x.pos]
		x.pos++
		idx := int64(x.pos)
		k := g.dedupKey(x)
		if g.sentLinks[k] == nil {
			g.sentLinks[k] = map[cid.Cid]int{}
		}
		has := v.data != nil
		unique := g.sentLinks[k][v.link] == 0
		if has {
			g.sentLinks[k][v.link]++
			if x.refs == nil {
				x.refs = map[cid.Cid]int{}
			}
			x.refs[v.link]++
		}
		send := has && unique && x.skipFirst < idx
		it := gsItem{link: v.link, index: idx, size: uint64(len(v.data)), action: graphsync.LinkActionPresent}
		if !has {
			it.action = graphsync.LinkActionMissing
			x.allFound = false
			if x.pos == 1 {
				g.finishIn(x, graphsync.RequestFailedContentNotFound, exts)
				return
			}
		}
		if send {
			it.data = v.data
			if g.OnWire == nil {
				g.OnWire = map[graphsync.RequestID][]int64{}
			}
			g.OnWire[x.id] = append(g.OnWire[x.id], idx)
		}
		status := graphsync.PartialResponse
		var hookErr error
		paused := pausedBySignal
		if has {
			bd := blockData{link: v.link, size: it.size, index: idx}
			if send {
				bd.onWire = it.size
			}
			ba := &outBlockActions{}
			g.outBlockHooks.each(func(h graphsync.OnOutgoingBlockHook) { h(x.from, x.req, bd, ba) })
			if g.in[x.id] != x || x.state == inCompleting {
				return // cancelled / finished from inside the hook
			}
			exts = append(exts, ba.exts...)
			if ba.pause {
				paused = true
			}
			hookErr = ba.err
		}
		if hookErr != nil {
			// the block of this transaction is still part of the message, then the request fails
			g.sendResp(x, graphsync.PartialResponse, []gsItem{it}, exts)
			g.finishIn(x, graphsync.RequestFailedUnknown, nil)
			return
		}
		if paused && x.errSig != nil {
			// Idealisation (documented in DESIGN 3.3): a cancel that arrived while this block was being processed
			// wins over a pause that takes effect at the same block. Real graphsync picks between its pause and
			// error signals at random and can park the response with the cancel still pending; that is graphsync's
			// race and must not be blamed on data-transfer.
			g.sendResp(x, graphsync.PartialResponse, []gsItem{it}, exts)
			err := x.errSig
			x.errSig = nil
			if errors.Is(err, errCancelledByCommand) {
				g.finishIn(x, graphsync.RequestCancelled, nil)
			} else {
				g.finishIn(x, graphsync.RequestFailedUnknown, nil)
			}
			return
		}
		if paused {
			status = graphsync.RequestPaused
			x.state = inPaused
		}
		if LogAll {
			g.w.Logf("gs %s resp %s inc=%d idx=%d link=%s send=%v", short(g.self), x.id.String()[30:], x.inc, idx, v.link.String()[50:], send)
		}
		g.sendResp(x, status, []gsItem{it}, exts)
		if paused {
			return
		}
		simrt.Yield("gs.respblock")
	}
}

var errCancelledByCommand = errors.New("response cancelled by responder")

func (g *GS) releaseDedup(x *inResp) {
	// a finished/cancelled request no longer contributes to the peer's link tracker
	// (linktracker.FinishRequest)
	k := g.dedupKey(x)
	for c, n := range x.refs {
		if m := g.sentLinks[k]; m != nil {
			m[c] -= n
			if m[c] <= 0 {
				delete(m, c)
			}
		}
	}
	x.refs = nil
	if x.dedup != "" {
		// dedup-by-key trackers disappear with their last request
		other := false
		for _, y := range g.in {
			if y != x && y.from == x.from && y.dedup == x.dedup {
				other = true
			}
		}
		if !other {
			delete(g.sentLinks, k)
		}
	}
}

func (g *GS) receiveCancel(from peer.ID, m *gsMsg) {
	x := g.in[m.id]
	if x == nil || x.from != from || x.state == inCompleting {
		return
	}
	delete(g.in, m.id)
	g.releaseDedup(x)
	g.reqCancelled.each(func(l graphsync.OnRequestorCancelledListener) { l(from, x.req) })
}

func (g *GS) receiveUpdate(from peer.ID, m *gsMsg) {
	x := g.in[m.id]
	if x == nil || x.from != from || x.state == inCompleting {
		return
	}
	u := reqData{id: m.id, exts: m.exts, typ: graphsync.RequestTypeUpdate}
	if x.state != inPaused {
		x.updates = append(x.updates, u)
		return
	}
	ua := &updActions{}
	g.updatedHooks.each(func(h graphsync.OnRequestUpdatedHook) { h(from, x.req, u, ua) })
	if ua.err != nil {
		g.finishIn(x, graphsync.RequestFailedUnknown, ua.exts)
		return
	}
	if len(ua.exts) > 0 {
		g.sendResp(x, graphsync.PartialResponse, nil, ua.exts)
	}
	if ua.unpause {
		x.state = inQueued
		g.kickIn(x)
	}
}

func (g *GS) receiverError(from peer.ID, err error) {
	g.recvNetErr.each(func(l graphsync.OnReceiverNetworkErrorListener) { l(from, err) })
}

// ---------------------------------------------------------------- GraphExchange API

func (g *GS) RegisterPersistenceOption(name string, lsys ipld.LinkSystem) error {
	if _, ok := g.persist[name]; ok {
		return errors.New("persistence option alreayd registered")
	}
	g.persist[name] = lsys
	g.logCall(GSCall{Kind: "register", Name: name})
	g.w.Logf("gs %s register persistence %s", short(g.self), name)
	return nil
}
func (g *GS) UnregisterPersistenceOption(name string) error {
	if _, ok := g.persist[name]; !ok {
		return errors.New("persistence option is not registered")
	}
	delete(g.persist, name)
	g.logCall(GSCall{Kind: "unregister", Name: name})
	g.w.Logf("gs %s unregister persistence %s", short(g.self), name)
	return nil
}
func (g *GS) RegisterIncomingRequestHook(h graphsync.OnIncomingRequestHook) graphsync.UnregisterHookFunc {
	return g.inReqHooks.add(h)
}
func (g *GS) RegisterIncomingResponseHook(h graphsync.OnIncomingResponseHook) graphsync.UnregisterHookFunc {
	return g.inRespHooks.add(h)
}
func (g *GS) RegisterIncomingBlockHook(h graphsync.OnIncomingBlockHook) graphsync.UnregisterHookFunc {
	return g.inBlockHooks.add(h)
}
func (g *GS) RegisterOutgoingRequestHook(h graphsync.OnOutgoingRequestHook) graphsync.UnregisterHookFunc {
	return g.outReqHooks.add(h)
}
func (g *GS) RegisterOutgoingBlockHook(h graphsync.OnOutgoingBlockHook) graphsync.UnregisterHookFunc {
	return g.outBlockHooks.add(h)
}
func (g *GS) RegisterRequestUpdatedHook(h graphsync.OnRequestUpdatedHook) graphsync.UnregisterHookFunc {
	return g.updatedHooks.add(h)
}
func (g *GS) RegisterOutgoingRequestProcessingListener(l graphsync.OnRequestProcessingListener) graphsync.UnregisterHookFunc {
	return g.outProcessing.add(l)
}
func (g *GS) RegisterIncomingRequestProcessingListener(l graphsync.OnRequestProcessingListener) graphsync.UnregisterHookFunc {
	return g.inProcessing.add(l)
}
func (g *GS) RegisterCompletedResponseListener(l graphsync.OnResponseCompletedListener) graphsync.UnregisterHookFunc {
	return g.completed.add(l)
}
func (g *GS) RegisterRequestorCancelledListener(l graphsync.OnRequestorCancelledListener) graphsync.UnregisterHookFunc {
	return g.reqCancelled.add(l)
}
func (g *GS) RegisterBlockSentListener(l graphsync.OnBlockSentListener) graphsync.UnregisterHookFunc {
	return g.blockSent.add(l)
}
func (g *GS) RegisterNetworkErrorListener(l graphsync.OnNetworkErrorListener) graphsync.UnregisterHookFunc {
	return g.netErr.add(l)
}
func (g *GS) RegisterReceiverNetworkErrorListener(l graphsync.OnReceiverNetworkErrorListener) graphsync.UnregisterHookFunc {
	return g.recvNetErr.add(l)
}

func (g *GS) Pause(ctx context.Context, id graphsync.RequestID) (rerr error) {
	simrt.Yield("gs.pause")
	ci := g.logCall(GSCall{Kind: "pause", ID: id})
	defer g.setErr(ci, &rerr)
	if g.dead {
		return graphsync.RequestNotFoundErr{}
	}
	if r := g.out[id]; r != nil {
		if r.state == outPaused {
			return errors.New("request is already paused")
		}
		r.pauseReq = true
		return nil
	}
	x := g.in[id]
	if x == nil || x.state == inCompleting {
		return graphsync.RequestNotFoundErr{}
	}
	if x.state == inPaused {
		return errors.New("request is already paused")
	}
	x.pauseSig = true
	return nil
}

func (g *GS) Unpause(ctx context.Context, id graphsync.RequestID, exts ...graphsync.ExtensionData) (rerr error) {
	simrt.Yield("gs.unpause")
	ci := g.logCall(GSCall{Kind: "unpause", ID: id, Exts: exts})
	defer g.setErr(ci, &rerr)
	if g.dead {
		return graphsync.RequestNotFoundErr{}
	}
	if r := g.out[id]; r != nil {
		if r.state != outPaused {
			return errors.New("request is not paused")
		}
		for _, e := range exts {
			r.exts = replaceExt(r.exts, e)
		}
		r.state = outQueued
		g.kickOut(r)
		return nil
	}
	x := g.in[id]
	if x == nil {
		return graphsync.RequestNotFoundErr{}
	}
	if x.state != inPaused {
		return errors.New("request is not paused")
	}
	x.state = inQueued
	if len(exts) > 0 {
		g.sendResp(x, graphsync.PartialResponse, nil, exts)
	}
	g.kickIn(x)
	return nil
}

func (g *GS) Cancel(ctx context.Context, id graphsync.RequestID) (rerr error) {
	simrt.Yield("gs.cancel")
	ci := g.logCall(GSCall{Kind: "cancel", ID: id})
	defer g.setErr(ci, &rerr)
	if g.dead {
		return graphsync.RequestNotFoundErr{}
	}
	if r := g.out[id]; r != nil {
		g.cancelOut(r, graphsync.RequestClientCancelledErr{})
		return nil
	}
	x := g.in[id]
	if x == nil || x.state == inCompleting {
		return graphsync.RequestNotFoundErr{}
	}
	if x.state == inRunning {
		x.errSig = errCancelledByCommand
		return nil
	}
	g.finishIn(x, graphsync.RequestCancelled, nil)
	return nil
}

func (g *GS) SendUpdate(ctx context.Context, id graphsync.RequestID, exts ...graphsync.ExtensionData) (rerr error) {
	simrt.Yield("gs.update")
	ci := g.logCall(GSCall{Kind: "update", ID: id, Exts: exts})
	defer g.setErr(ci, &rerr)
	if g.dead {
		return graphsync.RequestNotFoundErr{}
	}
	if r := g.out[id]; r != nil {
		g.net.send(g.self, r.to, &gsMsg{kind: gsUpdate, id: id, inc: r.inc, exts: wireExts(exts)})
		return nil
	}
	x := g.in[id]
	if x == nil {
		return graphsync.RequestNotFoundErr{}
	}
	g.sendResp(x, graphsync.PartialResponse, nil, exts)
	return nil
}

func (g *GS) Stats() graphsync.Stats { return graphsync.Stats{} }

var _ graphsync.GraphExchange = (*GS)(nil)
