#!/bin/bash
export VERIF_EVIDENCE_DIR=$(mktemp -d /tmp/ev.XXXX)  # evidence of runs against a changed tree must not replace the real one
# seeded_regress.sh [ids...] : applies every stored seeded change to /repo in turn, runs the quick check of the property it
# breaks (40 s budget), reverts, and prints one line per change. A change is "caught" when the check exits 1 with a VIOLATION line.
cd /verif
ids="$@"; [ -z "$ids" ] && ids=$(cd seeded && ls -d */ | tr -d /)
for id in $ids; do
  prop=$(python3 -c "import json;print(json.load(open('seeded/$id/meta.json'))['breaks_property'])")
  props=$prop
  case $id in c01_m1) props="C06 C09";; esac   # c01_m1 needs a process crash, which C01's quantifier does not contain (see DESIGN 12)
  if ! git -C /repo apply --check /verif/seeded/$id/patch.diff 2>/dev/null; then echo "$id $prop PATCH-DOES-NOT-APPLY"; continue; fi
  git -C /repo apply /verif/seeded/$id/patch.diff
  res=""
  for p in $props; do
    VERIF_BUDGET_S=${BUDGET:-40} bin/check $p quick > /tmp/sr.$id.$p.out 2>&1; rc=$?
    sig=$(grep -m1 "^violation:" /tmp/sr.$id.$p.out | cut -c1-140)
    res="$res $p:rc=$rc[$sig]"
  done
  git -C /repo checkout -- . ; git -C /repo clean -fdq
  echo "$id$res"
done
