package sim

import (
	"bytes"
	"fmt"
	"io"

	"github.com/ipfs/go-cid"
	"github.com/ipld/go-ipld-prime"
	"github.com/ipld/go-ipld-prime/codec/dagcbor"
	"github.com/ipld/go-ipld-prime/datamodel"
	"github.com/ipld/go-ipld-prime/fluent/qp"
	"github.com/ipld/go-ipld-prime/linking"
	cidlink "github.com/ipld/go-ipld-prime/linking/cid"
	"github.com/ipld/go-ipld-prime/node/basicnode"
	mh "github.com/multiformats/go-multihash"
)

var dagcborEncode = dagcbor.Encode
var dagcborDecode = dagcbor.Decode

// Store is an in-memory block store with an ipld LinkSystem on top.
type Store struct {
	M      map[cid.Cid][]byte
	Writes int
}

func NewStore() *Store { return &Store{M: map[cid.Cid][]byte{}} }

func (s *Store) LinkSystem() ipld.LinkSystem {
	ls := cidlink.DefaultLinkSystem()
	ls.TrustedStorage = true
	ls.StorageReadOpener = func(_ linking.LinkContext, l datamodel.Link) (io.Reader, error) {
		b, ok := s.M[l.(cidlink.Link).Cid]
		if !ok {
			return nil, fmt.Errorf("block not found: %s", l)
		}
		return bytes.NewReader(b), nil
	}
	ls.StorageWriteOpener = func(_ linking.LinkContext) (io.Writer, linking.BlockWriteCommitter, error) {
		var buf bytes.Buffer
		return &buf, func(l datamodel.Link) error {
			s.M[l.(cidlink.Link).Cid] = append([]byte(nil), buf.Bytes()...)
			s.Writes++
			return nil
		}, nil
	}
	return ls
}

var cborPrefix = cid.Prefix{Version: 1, Codec: cid.DagCBOR, MhType: mh.SHA2_256, MhLength: -1}

func (s *Store) putNode(n datamodel.Node) cid.Cid {
	var buf bytes.Buffer
	if err := dagcbor.Encode(n, &buf); err != nil {
		panic(err)
	}
	c, err := cborPrefix.Sum(buf.Bytes())
	if err != nil {
		panic(err)
	}
	s.M[c] = buf.Bytes()
	return c
}

// GenDAG builds a small dag-cbor DAG from choices: a tree of given fanouts with payload bytes, optionally
// re-linking an earlier block so that the same block occurs at several traversal positions.
func GenDAG(s *Store, intn func(int) int, salt int) (root cid.Cid, blocks int) {
	var leaves []cid.Cid
	nleaves := 1 + intn(10)
	for i := 0; i < nleaves; i++ {
		size := 1 + intn(1200)
		payload := make([]byte, size)
		for j := range payload {
			payload[j] = byte(i*31 + j + salt*7)
		}
		n, _ := qp.BuildMap(basicnode.Prototype.Any, 2, func(ma datamodel.MapAssembler) {
			qp.MapEntry(ma, "i", qp.Int(int64(i+1000*salt)))
			qp.MapEntry(ma, "data", qp.Bytes(payload))
		})
		leaves = append(leaves, s.putNode(n))
	}
	// duplicates: some leaves are linked twice
	links := append([]cid.Cid(nil), leaves...)
	for i := 0; i < intn(3); i++ {
		links = append(links, leaves[intn(len(leaves))])
	}
	mid := []cid.Cid{}
	per := 1 + intn(4)
	for i := 0; i < len(links); i += per {
		j := i + per
		if j > len(links) {
			j = len(links)
		}
		part := links[i:j]
		n, _ := qp.BuildList(basicnode.Prototype.Any, int64(len(part)), func(la datamodel.ListAssembler) {
			for _, c := range part {
				qp.ListEntry(la, qp.Link(cidlink.Link{Cid: c}))
			}
		})
		mid = append(mid, s.putNode(n))
	}
	rn, _ := qp.BuildMap(basicnode.Prototype.Any, 2, func(ma datamodel.MapAssembler) {
		qp.MapEntry(ma, "name", qp.String(fmt.Sprintf("root-%d", salt)))
		qp.MapEntry(ma, "kids", qp.List(int64(len(mid)), func(la datamodel.ListAssembler) {
			for _, c := range mid {
				qp.ListEntry(la, qp.Link(cidlink.Link{Cid: c}))
			}
		}))
	})
	return s.putNode(rn), len(s.M)
}
