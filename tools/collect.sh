#!/bin/bash
# collect.sh "<props>" "<seeds>" [budget_ms] : dev sweep that does not stop: prints every unknown signature once with an (unminimised) replay
W=${W:-/tmp/w1}; B=${3:-60000}
cd $W
for prop in $1; do
  for seed in $2; do
    ( GOLOG_LOG_LEVEL=fatal VERIF_COLLECT=1 VERIF_ANYPROP=${ANY-1} VERIF_PROP=$prop VERIF_SEED=$seed VERIF_BUDGET_MS=$B VERIF_MIN_MS=$B VERIF_MAXRUNS=${MAXRUNS:-100000} VERIF_KNOWN=/verif/known_findings.json VERIF_REPLAY_DIR=$W/replays ./sim.test -test.run '^TestWorker$' 2>&1 | grep "^COLLECT\|harness_error\":\"[^\"]" | cut -c1-400 ) &
  done
  wait
done 2>/dev/null | sort | awk '{k=$2; if(!(k in s)){s[k]=1; print}}'
