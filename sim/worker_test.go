package sim

// Worker entry point (a test binary because testing/synctest needs a *testing.T).
// Environment:
//   VERIF_PROP      property id (C01..C20)
//   VERIF_SEED      master seed
//   VERIF_WORKER    worker index; VERIF_RUN_BASE first run index; VERIF_MAXRUNS runs in this process
//   VERIF_BUDGET_MS wall-clock budget for searching in this process
//   VERIF_MIN_MS    wall-clock budget for minimisation
//   VERIF_OUT       path of the JSON result written by this process
//   VERIF_KNOWN     path of known_findings.json
//   VERIF_REPLAY_DIR where replay files go
//   VERIF_REPLAY    replay file to re-execute (replay mode)

import (
	"crypto/sha256"
	"encoding/hex"
	"encoding/json"
	"fmt"
	"os"
	"sort"
	"strconv"
	"strings"
	"testing"
	"time"

	"verif/simrt"
)

type ReplayFile struct {
	Property  string         `json:"property"`
	RegProp   string         `json:"strata_of_property,omitempty"` // property whose registered strata the run belongs to (differs from Property only in dev mode)
	Stratum   string         `json:"stratum"`
	StratumIx int            `json:"stratum_index"`
	Seed      uint64         `json:"seed"`
	Worker    int            `json:"worker"`
	Run       uint64         `json:"run"`
	Signature string         `json:"signature"`
	Oracle    string         `json:"oracle"`
	Detail    string         `json:"detail"`
	Tape      []uint32       `json:"tape"`
	TapeLen0  int            `json:"tape_len_before_minimisation"`
	Steps     int            `json:"steps"`
	Faults    map[string]int `json:"faults"`
	Log       []string       `json:"trace"`
	MinRuns   int            `json:"minimisation_runs"`
}

type WorkerOut struct {
	Prop        string                    `json:"property"`
	Worker      int                       `json:"worker"`
	Runs        int                       `json:"runs"`
	Steps       int64                     `json:"steps"`
	SimTimeMS   int64                     `json:"sim_time_ms"`
	WallMS      int64                     `json:"wall_ms"`
	Strata      map[string]int            `json:"strata"`
	Probes      map[string]int            `json:"probes"`
	Faults      map[string]int            `json:"faults"`
	Hashes      []string                  `json:"nontrivial_hashes"`
	AllHashes   int                       `json:"distinct_schedules"`
	Samples     []map[string]any          `json:"samples"`
	KnownHits   map[string]int            `json:"known_hits"`
	KnownDetail map[string]string         `json:"known_detail"`
	AbortedBy   map[string]int            `json:"aborted_by"`
	Violation   *Violation                `json:"violation,omitempty"`
	Replay      string                    `json:"replay,omitempty"`
	HarnessErr  string                    `json:"harness_error,omitempty"`
	Extra       map[string]map[string]int `json:"extra,omitempty"`
}

type knownFile struct {
	Findings []struct {
		Property   string   `json:"property"`
		Signatures []string `json:"signatures"`
		Status     string   `json:"status"`
	} `json:"findings"`
}

func envInt(k string, d int64) int64 {
	if v := os.Getenv(k); v != "" {
		if n, err := strconv.ParseInt(v, 10, 64); err == nil {
			return n
		}
	}
	return d
}

func mix64(a, b, c uint64) uint64 {
	z := a*0x9E3779B97F4A7C15 ^ (b+0x632BE59BD9B4E019)*0xBF58476D1CE4E5B9 ^ (c+0x1B873593)*0x94D049BB133111EB
	z = (z ^ (z >> 30)) * 0xBF58476D1CE4E5B9
	z = (z ^ (z >> 27)) * 0x94D049BB133111EB
	return z ^ (z >> 31)
}

func loadKnown() map[string]bool {
	out := map[string]bool{}
	p := os.Getenv("VERIF_KNOWN")
	if p == "" {
		return out
	}
	b, err := os.ReadFile(p)
	if err != nil {
		return out
	}
	var kf knownFile
	if json.Unmarshal(b, &kf) != nil {
		return out
	}
	for _, f := range kf.Findings {
		if f.Status == "known" {
			for _, sg := range f.Signatures {
				out[f.Property+"|"+sg] = true
			}
		}
	}
	return out
}

func TestWorker(t *testing.T) {
	prop := os.Getenv("VERIF_PROP")
	if prop == "" {
		t.Skip("VERIF_PROP not set")
	}
	if rp := os.Getenv("VERIF_REPLAY"); rp != "" {
		replayMain(t, rp)
		return
	}
	if len(registry[prop]) == 0 {
		fmt.Printf("HARNESS-ERROR no strata registered for %s\n", prop)
		os.Exit(2)
	}
	seed := uint64(envInt("VERIF_SEED", 1))
	worker := int(envInt("VERIF_WORKER", 0))
	base := uint64(envInt("VERIF_RUN_BASE", 0))
	maxRuns := int(envInt("VERIF_MAXRUNS", 200))
	budget := time.Duration(envInt("VERIF_BUDGET_MS", 10_000)) * time.Millisecond
	minBudget := time.Duration(envInt("VERIF_MIN_MS", 30_000)) * time.Millisecond
	known := loadKnown()
	collected := map[string]bool{}
	out := &WorkerOut{Prop: prop, Worker: worker, Strata: map[string]int{}, Probes: map[string]int{}, Faults: map[string]int{},
		KnownHits: map[string]int{}, KnownDetail: map[string]string{}, AbortedBy: map[string]int{}}
	nontrivial := map[uint64]bool{}
	all := map[uint64]bool{}
	start := time.Now()
	defer func() {
		out.WallMS = time.Since(start).Milliseconds()
		for h := range nontrivial {
			out.Hashes = append(out.Hashes, strconv.FormatUint(h, 16))
		}
		sort.Strings(out.Hashes)
		out.AllHashes = len(all)
		writeOut(out)
	}()
	for i := 0; i < maxRuns && time.Since(start) < budget; i++ {
		runIdx := base + uint64(i)
		st, stIdx := pickStratum(prop, runIdx*uint64(envInt("VERIF_NWORKERS", 16))+uint64(worker))
		tape := simrt.NewTape(mix64(seed, uint64(worker), runIdx))
		res := ExecRun(t, prop, st, stIdx, tape, false)
		out.Runs++
		out.Steps += int64(res.Steps)
		out.SimTimeMS += res.SimTime.Milliseconds()
		out.Strata[st.Name]++
		for k, v := range res.Probes {
			out.Probes[k] += v
		}
		for k, v := range res.Faults {
			out.Faults[k] += v
		}
		if res.HarnessErr != "" {
			out.HarnessErr = fmt.Sprintf("seed=%d worker=%d run=%d stratum=%s: %s", seed, worker, runIdx, st.Name, res.HarnessErr)
			return
		}
		if hl := os.Getenv("VERIF_HASHLOG"); hl != "" {
			// determinism self-test: one line per run (stratum, schedule hash, steps, tape length, number of violations)
			if fh, err := os.OpenFile(hl, os.O_APPEND|os.O_CREATE|os.O_WRONLY, 0o644); err == nil {
				fmt.Fprintf(fh, "%s seed=%d worker=%d run=%d %s hash=%016x steps=%d tape=%d viol=%d\n", prop, seed, worker, runIdx, st.Name, res.SchedHash, res.Steps, len(res.Tape), len(res.Viol))
				fh.Close()
			}
		}
		all[res.SchedHash] = true
		if res.Probes["nontrivial"] > 0 || ((prop == "C05" || prop == "C18" || prop == "C02") && res.Probes["adv-nontrivial"] > 0) || (prop == "C20" && res.Steps > 200) {
			nontrivial[res.SchedHash] = true
		}
		if len(out.Samples) < 3 && len(res.Sample) > 0 {
			sm := res.Sample
			sm["seed"] = seed
			sm["worker"] = worker
			sm["run"] = runIdx
			sm["stratum"] = st.Name
			sm["steps"] = res.Steps
			sm["sim_time"] = res.SimTime.String()
			sm["faults"] = res.Faults
			out.Samples = append(out.Samples, sm)
		}
		var mine *Violation
		for k := range res.Viol {
			v := res.Viol[k]
			key := v.Prop + "|" + v.Sig
			switch {
			case known[key]:
				out.KnownHits[key]++
				if _, ok := out.KnownDetail[key]; !ok {
					out.KnownDetail[key] = firstLine(v.Detail)
				}
			case v.Prop != prop:
				out.AbortedBy[key]++
			default:
				if mine == nil {
					mine = &res.Viol[k]
				}
			}
			if mine == nil && os.Getenv("VERIF_ANYPROP") != "" && !known[key] {
				mine = &res.Viol[k] // dev mode: stop at the first unknown violation of any property
			}
		}
		if mine != nil && os.Getenv("VERIF_COLLECT") != "" {
			// dev mode: keep going, save one unminimised replay per unknown signature
			for k := range res.Viol {
				v := res.Viol[k]
				key := v.Prop + "|" + v.Sig
				if known[key] || collected[key] {
					continue
				}
				collected[key] = true
				rf := &ReplayFile{Property: v.Prop, RegProp: prop, Stratum: st.Name, StratumIx: stIdx, Seed: seed, Worker: worker, Run: runIdx, Signature: v.Sig, Oracle: v.Oracle, Detail: v.Detail, Tape: res.Tape, Steps: res.Steps}
				fmt.Printf("COLLECT %s %s\n", key, writeReplay(rf))
			}
			continue
		}
		if mine != nil {
			// minimise, write the replay file, stop
			rf := minimise(t, prop, st, stIdx, res, *mine, minBudget)
			rf.Seed, rf.Worker, rf.Run = seed, worker, runIdx
			rf.RegProp = prop
			rf.Property = mine.Prop
			path := writeReplay(rf)
			out.Violation = mine
			out.Replay = path
			return
		}
	}
}

func firstLine(s string) string {
	if i := strings.IndexByte(s, '\n'); i >= 0 {
		return s[:i]
	}
	return s
}

func writeOut(o *WorkerOut) {
	p := os.Getenv("VERIF_OUT")
	b, _ := json.Marshal(o)
	if p == "" {
		fmt.Println(string(b))
		return
	}
	_ = os.WriteFile(p, b, 0o644)
}

func hasSig(res *RunResult, prop, sig string) *Violation {
	for i := range res.Viol {
		if res.Viol[i].Prop == prop && res.Viol[i].Sig == sig {
			return &res.Viol[i]
		}
	}
	return nil
}

// minimise shrinks the tape while the same violation class (property + signature) persists.
// Zero means "simplest choice" everywhere (keep running the current task / no fault / smallest
// option), so zeroing entries removes context switches and faults.
func minimise(t *testing.T, prop string, st Stratum, stIdx int, res *RunResult, v Violation, budget time.Duration) *ReplayFile {
	start := time.Now()
	best := append([]uint32(nil), res.Tape...)
	bestRes := res
	runs := 0
	try := func(cand []uint32) bool {
		if time.Since(start) > budget {
			return false
		}
		runs++
		r := ExecRun(t, prop, st, stIdx, simrt.ReplayTape(cand), false)
		if r.HarnessErr != "" {
			return false
		}
		if hasSig(r, v.Prop, v.Sig) != nil {
			// keep only what was consumed
			used := r.Tape
			if len(used) > len(cand) {
				used = used[:len(cand)]
			}
			best = append([]uint32(nil), used...)
			bestRes = r
			return true
		}
		return false
	}
	// sanity: the recorded tape must reproduce
	if !try(best) {
		// not reproducible: report unminimised (the replay step will flag divergence)
		return mkReplay(prop, st, stIdx, res, v, res.Tape, len(res.Tape), runs)
	}
	// 1. truncate the tail (zeros afterwards): binary search for the shortest reproducing prefix
	orig := append([]uint32(nil), best...)
	lo, hi := 0, len(orig)
	for lo < hi && time.Since(start) < budget {
		mid := (lo + hi) / 2
		if try(append([]uint32(nil), orig[:mid]...)) {
			hi = mid
		} else {
			lo = mid + 1
		}
	}
	// 2. zero chunks, halving the chunk size
	for chunk := len(best) / 2; chunk >= 1 && time.Since(start) < budget; chunk /= 2 {
		for off := 0; off < len(best) && time.Since(start) < budget; off += chunk {
			end := off + chunk
			if end > len(best) {
				end = len(best)
			}
			allZero := true
			for _, x := range best[off:end] {
				if x != 0 {
					allZero = false
					break
				}
			}
			if allZero {
				continue
			}
			cand := append([]uint32(nil), best...)
			for i := off; i < end; i++ {
				cand[i] = 0
			}
			try(cand)
		}
	}
	// 3. delete chunks (shifts later choices; sometimes helps)
	for chunk := len(best) / 4; chunk >= 1 && time.Since(start) < budget; chunk /= 2 {
		for off := 0; off+chunk <= len(best) && time.Since(start) < budget; off += chunk {
			cand := append(append([]uint32(nil), best[:off]...), best[off+chunk:]...)
			try(cand)
		}
	}
	// trim trailing zeros
	for len(best) > 0 && best[len(best)-1] == 0 {
		best = best[:len(best)-1]
	}
	vv := v
	if w := hasSig(bestRes, v.Prop, v.Sig); w != nil {
		vv = *w
	}
	return mkReplay(prop, st, stIdx, bestRes, vv, best, len(res.Tape), runs)
}

func mkReplay(prop string, st Stratum, stIdx int, res *RunResult, v Violation, tape []uint32, len0, runs int) *ReplayFile {
	return &ReplayFile{Property: prop, Stratum: st.Name, StratumIx: stIdx, Signature: v.Sig, Oracle: v.Oracle, Detail: v.Detail,
		Tape: tape, TapeLen0: len0, Steps: res.Steps, Faults: res.Faults, MinRuns: runs}
}

func writeReplay(rf *ReplayFile) string {
	dir := os.Getenv("VERIF_REPLAY_DIR")
	if dir == "" {
		dir = "."
	}
	_ = os.MkdirAll(dir, 0o755)
	// readable trace of the minimised run
	h := sha256.Sum256([]byte(fmt.Sprint(rf.Tape) + rf.Signature))
	name := fmt.Sprintf("%s/%s-%d-w%d-%s.json", dir, rf.Property, rf.Seed, rf.Worker, hex.EncodeToString(h[:4]))
	b, _ := json.MarshalIndent(rf, "", " ")
	tmp := name + ".tmp"
	_ = os.WriteFile(tmp, b, 0o644)
	_ = os.Rename(tmp, name) // atomic: the driver may kill this process at any moment
	return name
}

// replayMain re-executes a replay file; exit code/printing is done by the Python driver from the JSON we write.
func replayMain(t *testing.T, path string) {
	b, err := os.ReadFile(path)
	if err != nil {
		fmt.Printf("HARNESS-ERROR cannot read replay file: %v\n", err)
		os.Exit(2)
	}
	var rf ReplayFile
	if err := json.Unmarshal(b, &rf); err != nil {
		fmt.Printf("HARNESS-ERROR bad replay file: %v\n", err)
		os.Exit(2)
	}
	regp := rf.RegProp
	if regp == "" {
		regp = rf.Property
	}
	ss := registry[regp]
	if rf.StratumIx >= len(ss) || ss[rf.StratumIx].Name != rf.Stratum {
		fmt.Printf("HARNESS-ERROR replay stratum %q not found\n", rf.Stratum)
		os.Exit(2)
	}
	LogAll = true
	res := ExecRun(t, regp, ss[rf.StratumIx], rf.StratumIx, simrt.ReplayTape(rf.Tape), os.Getenv("VERIF_TRACE") != "")
	out := map[string]any{"property": rf.Property, "expected": rf.Signature, "harness_error": res.HarnessErr, "steps": res.Steps}
	var sigs []string
	for _, v := range res.Viol {
		sigs = append(sigs, v.Prop+"|"+v.Sig)
	}
	out["signatures"] = sigs
	out["reproduced"] = hasSig(res, rf.Property, rf.Signature) != nil
	if v := hasSig(res, rf.Property, rf.Signature); v != nil {
		out["detail"] = v.Detail
	}
	if os.Getenv("VERIF_SHOWLOG") != "" {
		for _, l := range res.Log {
			fmt.Println(l)
		}
		for _, l := range res.Trace {
			fmt.Println("  sched:", l)
		}
	}
	if p := os.Getenv("VERIF_WRITE_TRACE"); p != "" {
		rf.Log = res.Log
		bb, _ := json.MarshalIndent(rf, "", " ")
		_ = os.WriteFile(p, bb, 0o644)
	}
	jb, _ := json.Marshal(out)
	if p := os.Getenv("VERIF_OUT"); p != "" {
		_ = os.WriteFile(p, jb, 0o644)
	} else {
		fmt.Println(string(jb))
	}
}
