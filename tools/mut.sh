#!/bin/bash
export VERIF_EVIDENCE_DIR=$(mktemp -d /tmp/ev.XXXX)  # evidence of runs against a changed tree must not replace the real one
# mut.sh <patch> <prop>... : apply a patch to /repo, run the quick checks (short budget), always revert
P=$(realpath "$1"); shift
git -C /repo apply "$P" || { echo "patch does not apply"; exit 3; }
trap 'git -C /repo checkout -- . ; git -C /repo clean -fdq' EXIT
for p in "$@"; do
  VERIF_BUDGET_S=${BUDGET:-25} /verif/bin/check $p quick > /tmp/mut.$p.out 2>&1; rc=$?
  echo "== $p rc=$rc"; grep -E "^VIOLATION|^violation:|HARNESS" /tmp/mut.$p.out | head -5; grep -c "^KNOWN" /tmp/mut.$p.out | sed "s/^/known-finding lines: /"
done
