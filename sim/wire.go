package sim

// wire: message constructors x encode/decode (network form and IPLD/extension form) x stream faults (C12),
// with an independent reference encoder written from message/message1_1prime/schema.ipldsch.

import (
	"bytes"
	"encoding/binary"
	"errors"
	"fmt"
	"io"
	"math"
	"sort"
	"time"

	"github.com/ipfs/go-cid"
	"github.com/ipld/go-ipld-prime"
	"github.com/ipld/go-ipld-prime/codec/dagcbor"
	"github.com/ipld/go-ipld-prime/datamodel"
	cidlink "github.com/ipld/go-ipld-prime/linking/cid"
	"github.com/ipld/go-ipld-prime/node/basicnode"
	"github.com/ipld/go-ipld-prime/schema"
	selectorparse "github.com/ipld/go-ipld-prime/traversal/selector/parse"
	"github.com/libp2p/go-libp2p/core/peer"

	datatransfer "github.com/filecoin-project/go-data-transfer/v2"
	"github.com/filecoin-project/go-data-transfer/v2/message"
	"github.com/filecoin-project/go-data-transfer/v2/message/types"
)

// ---------------------------------------------------------------- generated messages

type genMsg struct {
	msg  datatransfer.Message
	kind string // constructor used
	// constructor arguments (for the reference encoder)
	isReq    bool
	typ      uint64
	tid      uint64
	pause    bool
	pull     bool
	accepted bool
	base     *cid.Cid
	sel      datamodel.Node
	v        datatransfer.TypedVoucher // voucher / voucher result (Voucher nil => null)
	restart  datatransfer.ChannelID
}

func genTID(r *RunCtx) uint64 {
	switch r.Intn(6) {
	case 0:
		return 0
	case 1:
		return math.MaxUint64
	case 2:
		return 1 << 63
	case 3:
		return (1 << 63) - 1
	case 4:
		return uint64(r.Intn(1 << 30))
	}
	return uint64(r.Intn(1<<30))<<34 | uint64(r.Intn(1<<30))
}

func genPeer(r *RunCtx) peer.ID {
	switch r.Intn(4) {
	case 0:
		return peer.ID("")
	case 1:
		return peer.ID([]byte{0xff, 0xfe, 0x00, byte(r.Intn(256))}) // not valid UTF-8
	}
	return peer.ID(fmt.Sprintf("peer-%d", r.Intn(1000)))
}

func genTyped(r *RunCtx, allowNil bool) datatransfer.TypedVoucher {
	if allowNil && r.Intn(4) == 0 {
		return datatransfer.TypedVoucher{Voucher: nil, Type: ""}
	}
	return datatransfer.TypedVoucher{Voucher: genNode(r, 2), Type: datatransfer.TypeIdentifier([]string{"T0", "Retrieval/v1", "", "x"}[r.Intn(4)])}
}

var wireCids = []cid.Cid{fixedCid, mustCid("bafkreifjjcie6lypi6ny7amxnfftagclbuxndqonfipmb64f2km2devei4"), mustCid("QmdfTbBqBPQ7VNxZEYEj14VmRuZBkqFbiwReogJgS1zR1n")}

func genMessage(r *RunCtx) *genMsg {
	g := &genMsg{tid: genTID(r)}
	tid := datatransfer.TransferID(g.tid)
	switch r.Intn(13) {
	case 0, 1:
		g.kind, g.isReq = "NewRequest", true
		restart := r.Intn(2) == 0
		g.pull = r.Intn(2) == 0
		c := wireCids[r.Intn(len(wireCids))]
		g.base = &c
		g.sel = selectorparse.CommonSelector_ExploreAllRecursively
		if r.Intn(3) == 0 {
			g.sel = selectorparse.CommonSelector_MatchPoint
		}
		g.v = genTyped(r, false)
		g.typ = uint64(types.NewMessage)
		if restart {
			g.kind = "NewRequest(restart)"
			g.typ = uint64(types.RestartMessage)
		}
		v := g.v
		m, err := message.NewRequest(tid, restart, g.pull, &v, c, g.sel)
		if err != nil {
			return nil
		}
		g.msg = m
	case 2:
		g.kind, g.isReq, g.typ = "RestartExistingChannelRequest", true, uint64(types.RestartExistingChannelRequestMessage)
		g.restart = datatransfer.ChannelID{Initiator: genPeer(r), Responder: genPeer(r), ID: tid}
		g.tid = 0
		g.msg = message.RestartExistingChannelRequest(g.restart)
	case 3:
		g.kind, g.isReq, g.typ = "CancelRequest", true, uint64(types.CancelMessage)
		g.msg = message.CancelRequest(tid)
	case 4:
		g.kind, g.isReq, g.typ = "UpdateRequest", true, uint64(types.UpdateMessage)
		g.pause = r.Intn(2) == 0
		g.msg = message.UpdateRequest(tid, g.pause)
	case 5:
		g.kind, g.isReq, g.typ = "VoucherRequest", true, uint64(types.VoucherMessage)
		g.v = genTyped(r, false)
		v := g.v
		m, _ := message.VoucherRequest(tid, &v)
		g.msg = m
	case 6:
		g.kind, g.typ = "UpdateResponse", uint64(types.UpdateMessage)
		g.pause = r.Intn(2) == 0
		g.msg = message.UpdateResponse(tid, g.pause)
	case 7:
		g.kind, g.typ = "CancelResponse", uint64(types.CancelMessage)
		g.msg = message.CancelResponse(tid)
	case 8:
		g.kind, g.typ = "CompleteResponse", uint64(types.CompleteMessage)
		g.accepted, g.pause = r.Intn(2) == 0, r.Intn(2) == 0
		g.v = genTyped(r, true)
		var vp *datatransfer.TypedVoucher
		if g.v.Voucher != nil {
			v := g.v
			vp = &v
		} else {
			g.v = datatransfer.TypedVoucher{Voucher: ipld.Null, Type: ""}
		}
		m, _ := message.CompleteResponse(tid, g.accepted, g.pause, vp)
		g.msg = m
	default:
		// ValidationResultResponse for every message type it is used with
		mt := []types.MessageType{types.NewMessage, types.RestartMessage, types.VoucherResultMessage, types.CompleteMessage}[r.Intn(4)]
		g.kind, g.typ = fmt.Sprintf("ValidationResultResponse(%d)", mt), uint64(mt)
		res := datatransfer.ValidationResult{Accepted: r.Intn(2) == 0}
		var verr error
		if r.Intn(4) == 0 {
			verr = errors.New("validation failed")
		}
		g.v = genTyped(r, true)
		if g.v.Voucher != nil {
			v := g.v
			res.VoucherResult = &v
		} else {
			g.v = datatransfer.TypedVoucher{Voucher: ipld.Null, Type: ""}
		}
		g.pause = r.Intn(2) == 0
		g.accepted = verr == nil && res.Accepted
		m, _ := message.ValidationResultResponse(mt, tid, res, verr, g.pause)
		g.msg = m
		if m != nil {
			if resp := m.(datatransfer.Response); resp.Accepted() != g.accepted {
				r.Failf("C12", "accepted-flag", g.kind, "ValidationResultResponse(result.Accepted=%v, err=%v).Accepted() = %v", res.Accepted, verr, resp.Accepted())
			}
		}
	}
	if g.msg == nil {
		return nil
	}
	return g
}

// ---------------------------------------------------------------- reference encoder (from schema.ipldsch)

type refEnc struct{ buf bytes.Buffer }

func (e *refEnc) head(major byte, n uint64) {
	switch {
	case n < 24:
		e.buf.WriteByte(major<<5 | byte(n))
	case n <= 0xff:
		e.buf.WriteByte(major<<5 | 24)
		e.buf.WriteByte(byte(n))
	case n <= 0xffff:
		e.buf.WriteByte(major<<5 | 25)
		var b [2]byte
		binary.BigEndian.PutUint16(b[:], uint16(n))
		e.buf.Write(b[:])
	case n <= 0xffffffff:
		e.buf.WriteByte(major<<5 | 26)
		var b [4]byte
		binary.BigEndian.PutUint32(b[:], uint32(n))
		e.buf.Write(b[:])
	default:
		e.buf.WriteByte(major<<5 | 27)
		var b [8]byte
		binary.BigEndian.PutUint64(b[:], n)
		e.buf.Write(b[:])
	}
}
func (e *refEnc) uint(n uint64)  { e.head(0, n) }
func (e *refEnc) text(s string)  { e.head(3, uint64(len(s))); e.buf.WriteString(s) }
func (e *refEnc) bytesv(b []byte) { e.head(2, uint64(len(b))); e.buf.Write(b) }
func (e *refEnc) boolv(b bool) {
	if b {
		e.buf.WriteByte(0xf5)
	} else {
		e.buf.WriteByte(0xf4)
	}
}
func (e *refEnc) null() { e.buf.WriteByte(0xf6) }
func (e *refEnc) link(c cid.Cid) {
	e.head(6, 42)
	e.bytesv(append([]byte{0}, c.Bytes()...))
}

type refKV struct {
	k string
	v func()
}

// mapSorted writes a DAG-CBOR map: keys sorted by length, then bytewise (RFC 7049 canonical order).
func (e *refEnc) mapSorted(kvs []refKV) {
	sort.Slice(kvs, func(i, j int) bool {
		if len(kvs[i].k) != len(kvs[j].k) {
			return len(kvs[i].k) < len(kvs[j].k)
		}
		return kvs[i].k < kvs[j].k
	})
	e.head(5, uint64(len(kvs)))
	for _, kv := range kvs {
		e.text(kv.k)
		kv.v()
	}
}

// node writes an arbitrary IPLD data-model value.
func (e *refEnc) node(n datamodel.Node) {
	if n == nil {
		e.null()
		return
	}
	if tn, ok := n.(schema.TypedNode); ok {
		n = tn.Representation() // what goes on the wire / to disk is the representation of a typed value
	}
	switch n.Kind() {
	case datamodel.Kind_Null:
		e.null()
	case datamodel.Kind_Bool:
		b, _ := n.AsBool()
		e.boolv(b)
	case datamodel.Kind_Int:
		if un, ok := n.(datamodel.UintNode); ok {
			if u, err := un.AsUint(); err == nil {
				e.uint(u)
				return
			}
		}
		i, _ := n.AsInt()
		if i >= 0 {
			e.uint(uint64(i))
		} else {
			e.head(1, uint64(-1-i))
		}
	case datamodel.Kind_String:
		s, _ := n.AsString()
		e.text(s)
	case datamodel.Kind_Bytes:
		b, _ := n.AsBytes()
		e.bytesv(b)
	case datamodel.Kind_Link:
		l, _ := n.AsLink()
		e.link(l.(cidlink.Link).Cid)
	case datamodel.Kind_List:
		e.head(4, uint64(n.Length()))
		it := n.ListIterator()
		for !it.Done() {
			_, v, _ := it.Next()
			e.node(v)
		}
	case datamodel.Kind_Map:
		var kvs []refKV
		it := n.MapIterator()
		for !it.Done() {
			k, v, _ := it.Next()
			ks, _ := k.AsString()
			vv := v
			kvs = append(kvs, refKV{ks, func() { e.node(vv) }})
		}
		e.mapSorted(kvs)
	case datamodel.Kind_Float:
		f, _ := n.AsFloat()
		e.buf.WriteByte(0xfb)
		var b [8]byte
		binary.BigEndian.PutUint64(b[:], math.Float64bits(f))
		e.buf.Write(b[:])
	}
}

// refEncode lays the message down exactly as schema.ipldsch prescribes (struct -> map with renamed keys,
// ChannelID as a tuple, nullable fields as null, ints unsigned over the full 64-bit range).
func refEncode(g *genMsg) []byte {
	e := &refEnc{}
	reqBody := func() {
		e.mapSorted([]refKV{
			{"BCid", func() {
				if g.base == nil {
					e.null()
				} else {
					e.link(*g.base)
				}
			}},
			{"Type", func() { e.uint(g.typ) }},
			{"Paus", func() { e.boolv(g.pause) }},
			{"Part", func() { e.boolv(false) }},
			{"Pull", func() { e.boolv(g.pull) }},
			{"Stor", func() { e.node(g.sel) }},
			{"Vouch", func() { e.node(g.v.Voucher) }},
			{"VTyp", func() { e.text(string(g.v.Type)) }},
			{"XferID", func() { e.uint(g.tid) }},
			{"RestartChannel", func() {
				e.head(4, 3)
				e.text(string(g.restart.Initiator))
				e.text(string(g.restart.Responder))
				e.uint(uint64(g.restart.ID))
			}},
		})
	}
	respBody := func() {
		e.mapSorted([]refKV{
			{"Type", func() { e.uint(g.typ) }},
			{"Acpt", func() { e.boolv(g.accepted) }},
			{"Paus", func() { e.boolv(g.pause) }},
			{"XferID", func() { e.uint(g.tid) }},
			{"VRes", func() { e.node(g.v.Voucher) }},
			{"VTyp", func() { e.text(string(g.v.Type)) }},
		})
	}
	e.mapSorted([]refKV{
		{"IsRq", func() { e.boolv(g.isReq) }},
		{"Request", func() {
			if g.isReq {
				reqBody()
			} else {
				e.null()
			}
		}},
		{"Response", func() {
			if g.isReq {
				e.null()
			} else {
				respBody()
			}
		}},
	})
	return e.buf.Bytes()
}

// reorderTopLevel re-encodes a canonical message with its map keys in reverse order at every level of the
// message structure (values untouched): decoders must accept any key order.
func reverseKeysEncode(g *genMsg) []byte {
	// decode canonical bytes into a generic node, re-encode maps with keys reversed (non-canonical)
	canon := refEncode(g)
	nb := basicnode.Prototype.Any.NewBuilder()
	if err := dagcbor.Decode(nb, bytes.NewReader(canon)); err != nil {
		return nil
	}
	e := &refEnc{}
	var rec func(n datamodel.Node, depth int)
	rec = func(n datamodel.Node, depth int) {
		if n.Kind() == datamodel.Kind_Map && depth < 2 {
			type kv struct {
				k string
				v datamodel.Node
			}
			var kvs []kv
			it := n.MapIterator()
			for !it.Done() {
				k, v, _ := it.Next()
				ks, _ := k.AsString()
				kvs = append(kvs, kv{ks, v})
			}
			e.head(5, uint64(len(kvs)))
			for i := len(kvs) - 1; i >= 0; i-- {
				e.text(kvs[i].k)
				rec(kvs[i].v, depth+1)
			}
			return
		}
		e.node(n)
	}
	rec(nb.Build(), 0)
	return e.buf.Bytes()
}

// ---------------------------------------------------------------- faulty reader

type chunkReader struct {
	r      *RunCtx
	data   []byte
	failAt int // -1: never; else return an error once this many bytes were delivered
	pos    int
}

var errStream = errors.New("simstream: injected read error")

func (c *chunkReader) Read(p []byte) (int, error) {
	if c.failAt >= 0 && c.pos >= c.failAt {
		return 0, errStream
	}
	if c.pos >= len(c.data) {
		return 0, io.EOF
	}
	n := len(p)
	if rem := len(c.data) - c.pos; n > rem {
		n = rem
	}
	if c.failAt >= 0 && c.pos+n > c.failAt {
		n = c.failAt - c.pos
	}
	if n > 1 {
		n = 1 + c.r.Intn(n)
	}
	copy(p, c.data[c.pos:c.pos+n])
	c.pos += n
	return n, nil
}

// decodeNet runs FromNet over data with arbitrary chunking, recovering panics (a panic is a C12 violation).
func decodeNet(r *RunCtx, what string, data []byte, failAt int) (m datatransfer.Message, err error) {
	defer func() {
		if p := recover(); p != nil {
			val := panicValNorm.ReplaceAllString(fmt.Sprint(p), "#")
			r.Failf("C12", "decode-panic", "FromNet|"+val, "FromNet panicked on %s (%d bytes): %v", what, len(data), p)
			err = errors.New("panic")
		}
	}()
	m, err = message.FromNet(&chunkReader{r: r, data: data, failAt: failAt})
	if err == nil {
		checkBody(r, "FromNet", what, m)
	}
	return
}

func checkBody(r *RunCtx, dec, what string, m datatransfer.Message) {
	defer func() {
		if p := recover(); p != nil {
			r.Failf("C12", "missing-body", dec, "%s accepted %s and returned a message whose accessors panic (missing body): %v", dec, what, p)
		}
	}()
	if m == nil {
		r.Failf("C12", "missing-body", dec+"|nil", "%s accepted %s and returned a nil message with a nil error", dec, what)
		return
	}
	_ = Summarise(m)
}

func decodeIPLD(r *RunCtx, what string, n datamodel.Node) (m datatransfer.Message, err error) {
	defer func() {
		if p := recover(); p != nil {
			val := panicValNorm.ReplaceAllString(fmt.Sprint(p), "#")
			r.Failf("C12", "decode-panic", "FromIPLD|"+val, "FromIPLD panicked on %s: %v", what, p)
			err = errors.New("panic")
		}
	}()
	m, err = message.FromIPLD(n)
	if err == nil {
		checkBody(r, "FromIPLD", what, m)
	}
	return
}

func kindCount(s MsgSum) (int, string) {
	n := 0
	var ks []string
	add := func(b bool, k string) {
		if b {
			n++
			ks = append(ks, k)
		}
	}
	if s.Req {
		add(s.New, "new")
		add(s.Restart, "restart")
		add(s.Update, "update")
		add(s.Cancel, "cancel")
		add(s.Voucher && !s.New, "voucher")
		add(s.RestartEx, "restart-existing")
	} else {
		add(s.New, "new")
		add(s.Restart, "restart")
		add(s.Update, "update")
		add(s.Cancel, "cancel")
		add(s.Complete, "complete")
		add(s.Voucher, "voucher-result")
	}
	return n, fmt.Sprint(ks)
}

func wireScenario(exhaustiveTrunc bool) func(r *RunCtx) {
	return func(r *RunCtx) {
		nmsg := 6
		for i := 0; i < nmsg; i++ {
			g := genMessage(r)
			if g == nil {
				continue
			}
			s0 := Summarise(g.msg)
			if n, ks := kindCount(s0); n != 1 {
				r.Failf("C12", "not-exactly-one-kind", g.kind, "message built by %s classifies as %d kinds %s", g.kind, n, ks)
			}
			var buf bytes.Buffer
			if err := g.msg.ToNet(&buf); err != nil {
				r.Failf("C12", "encode-error", g.kind, "ToNet of a %s failed: %v", g.kind, err)
				continue
			}
			enc := buf.Bytes()
			r.S.Mix(string(enc)) // distinctness of a wire run = the messages it generated
			// published layout
			if ref := refEncode(g); !bytes.Equal(ref, enc) {
				r.Failf("C12", "bytes-differ-from-schema", g.kind, "ToNet(%s) = %x, the schema's DAG-CBOR map is %x", g.kind, enc, ref)
			}
			// network round trip with arbitrary chunking
			m1, err := decodeNet(r, "its own encoding of a "+g.kind, enc, -1)
			if err != nil {
				r.Failf("C12", "roundtrip-net", g.kind+"|error", "FromNet(ToNet(%s)) failed: %v", g.kind, err)
			} else if s1 := Summarise(m1); s1 != s0 {
				r.Failf("C12", "roundtrip-net", g.kind+"|fields", "FromNet(ToNet(%s)) changed observable fields: %+v -> %+v", g.kind, s0, s1)
			}
			// IPLD / graphsync-extension round trip (through dag-cbor, as graphsync does)
			nd := g.msg.ToIPLD()
			m2, err := decodeIPLD(r, "ToIPLD of a "+g.kind, nd)
			if err != nil {
				r.Failf("C12", "roundtrip-ipld", g.kind+"|error", "FromIPLD(ToIPLD(%s)) failed: %v", g.kind, err)
			} else if s2 := Summarise(m2); s2 != s0 {
				r.Failf("C12", "roundtrip-ipld", g.kind+"|fields", "FromIPLD(ToIPLD(%s)) changed observable fields: %+v -> %+v", g.kind, s0, s2)
			}
			m3, err := decodeIPLD(r, "dag-cbor round trip of ToIPLD of a "+g.kind, wireNode(nd))
			if err != nil {
				r.Failf("C12", "roundtrip-ipld", g.kind+"|wire-error", "FromIPLD(dagcbor(ToIPLD(%s))) failed: %v", g.kind, err)
			} else if s3 := Summarise(m3); s3 != s0 {
				r.Failf("C12", "roundtrip-ipld", g.kind+"|wire-fields", "extension round trip of %s changed observable fields: %+v -> %+v", g.kind, s0, s3)
			}
			r.Probe("roundtrips")
			// any key order decodes to the same message
			if rev := reverseKeysEncode(g); rev != nil {
				m4, err := decodeNet(r, "key-reordered encoding of a "+g.kind, rev, -1)
				if err != nil {
					r.Failf("C12", "key-order", g.kind+"|error", "a %s with its map keys in another order is rejected: %v", g.kind, err)
				} else if s4 := Summarise(m4); s4 != s0 {
					r.Failf("C12", "key-order", g.kind+"|fields", "a %s with its map keys in another order decodes differently: %+v -> %+v", g.kind, s0, s4)
				}
			}
			// stream faults: truncation, read errors, bit flips, garbage suffix
			var offs []int
			if exhaustiveTrunc {
				for o := 0; o < len(enc); o++ {
					offs = append(offs, o)
				}
				r.Probe("exhaustive-truncation")
			} else {
				for k := 0; k < 6; k++ {
					offs = append(offs, r.Intn(len(enc)))
				}
			}
			for _, o := range offs {
				if m, err := decodeNet(r, fmt.Sprintf("%s truncated at %d/%d", g.kind, o, len(enc)), enc[:o], -1); err == nil {
					if Summarise(m) != s0 {
						r.Failf("C12", "truncated-accepted", g.kind, "a %s truncated at byte %d of %d decodes without error to a different message", g.kind, o, len(enc))
					}
				}
				if m, err := decodeNet(r, fmt.Sprintf("%s with a read error at %d", g.kind, o), enc, o); err == nil {
					if Summarise(m) != s0 {
						r.Failf("C12", "read-error-accepted", g.kind, "a read error at byte %d of a %s yields a different message without error", o, g.kind)
					}
				}
				r.Probe("stream-faults")
			}
			nflip := 8
			if exhaustiveTrunc {
				nflip = 64
			}
			for k := 0; k < nflip; k++ {
				mut := append([]byte(nil), enc...)
				bit := r.Intn(len(mut) * 8)
				mut[bit/8] ^= 1 << uint(bit%8)
				_, _ = decodeNet(r, fmt.Sprintf("%s with bit %d flipped", g.kind, bit), mut, -1)
				// also as an extension value
				nb := basicnode.Prototype.Any.NewBuilder()
				if dagcbor.Decode(nb, bytes.NewReader(mut)) == nil {
					_, _ = decodeIPLD(r, fmt.Sprintf("%s with bit %d flipped", g.kind, bit), nb.Build())
				}
				r.Probe("bit-flips")
			}
			sfx := append(append([]byte(nil), enc...), byte(r.Intn(256)), byte(r.Intn(256)))
			if m, err := decodeNet(r, g.kind+" followed by garbage", sfx, -1); err == nil && Summarise(m) != s0 {
				r.Failf("C12", "garbage-suffix-changes-message", g.kind, "trailing bytes after a %s change the decoded message", g.kind)
			}
		}
		// arbitrary byte strings and arbitrary IPLD values
		for k := 0; k < 10; k++ {
			n := r.Intn(40)
			b := make([]byte, n)
			for i := range b {
				b[i] = byte(r.Intn(256))
			}
			if r.Intn(2) == 0 && n > 2 {
				b[0] = 0xa0 | byte(1+r.Intn(4)) // looks like a small map
				b[1] = 0x60 | byte(r.Intn(8))
			}
			_, _ = decodeNet(r, fmt.Sprintf("arbitrary bytes %x", b), b, -1)
			_, _ = decodeIPLD(r, "an arbitrary IPLD value", genNode(r, 3))
			r.Probe("arbitrary-inputs")
		}
		// hand-built structurally valid maps with null bodies
		for _, isReq := range []bool{true, false} {
			e := &refEnc{}
			e.mapSorted([]refKV{{"IsRq", func() { e.boolv(isReq) }}, {"Request", func() { e.null() }}, {"Response", func() { e.null() }}})
			if m, err := decodeNet(r, "a message map with null bodies", e.buf.Bytes(), -1); err == nil {
				checkBody(r, "FromNet", "a message map with null bodies", m)
				if m != nil {
					r.Failf("C12", "missing-body", "null-bodies-accepted", "FromNet accepts {IsRq:%v, Request:null, Response:null}", isReq)
				}
			}
			nb := basicnode.Prototype.Any.NewBuilder()
			_ = dagcbor.Decode(nb, bytes.NewReader(e.buf.Bytes()))
			if m, err := decodeIPLD(r, "a message map with null bodies", nb.Build()); err == nil && m != nil {
				r.Failf("C12", "missing-body", "null-bodies-accepted-ipld", "FromIPLD accepts {IsRq:%v, Request:null, Response:null}", isReq)
			}
		}
		r.Probe("nontrivial")
		r.NoStuckCheck = true
	}
}

func init() {
	Register("C12",
		Stratum{Name: "wire-roundtrip-and-stream-faults", Weight: 8, Fn: wireScenario(false), MaxSteps: 50_000, Horizon: time.Minute},
		Stratum{Name: "wire-exhaustive-truncation", Weight: 1, Fn: wireScenario(true), MaxSteps: 50_000, Horizon: time.Minute},
	)
}
