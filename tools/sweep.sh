#!/bin/bash
# sweep.sh "<props>" "<seeds>" [budget_ms] : dev sweep on /tmp/w1 build with VERIF_ANYPROP=1, concise output
W=${W:-/tmp/w1}; B=${3:-25000}
cd $W
for prop in $1; do
  for seed in $2; do
    ( GOLOG_LOG_LEVEL=fatal VERIF_ANYPROP=${ANY-1} VERIF_PROP=$prop VERIF_SEED=$seed VERIF_BUDGET_MS=$B VERIF_MIN_MS=$((B-5000)) VERIF_MAXRUNS=${MAXRUNS:-300} VERIF_KNOWN=/verif/known_findings.json VERIF_REPLAY_DIR=$W/replays ./sim.test -test.run '^TestWorker$' 2>&1 | python3 -c "
import sys,json
for l in sys.stdin:
    if l.startswith('{'):
        d=json.loads(l); v=d.get('violation'); print('$prop','seed=$seed','runs=%d'%d['runs'], v and (v['property'],v['signature'],v['detail'][:${DET:-300}]) or 'clean', d.get('replay') or '', (d.get('harness_error') or '')[:600])" ) &
  done
  wait
done 2>/dev/null
