// maprange lists every `range` over a map in the packages given (run inside the module): a determinism audit aid.
package main

import (
	"fmt"
	"go/ast"
	"go/types"
	"os"

	"golang.org/x/tools/go/packages"
)

func main() {
	cfg := &packages.Config{Mode: packages.NeedSyntax | packages.NeedTypes | packages.NeedTypesInfo | packages.NeedName | packages.NeedFiles, Dir: os.Args[1], Tests: true}
	pkgs, err := packages.Load(cfg, os.Args[2:]...)
	if err != nil {
		fmt.Println(err)
		os.Exit(2)
	}
	seen := map[string]bool{}
	for _, p := range pkgs {
		for _, f := range p.Syntax {
			ast.Inspect(f, func(n ast.Node) bool {
				rs, ok := n.(*ast.RangeStmt)
				if !ok {
					return true
				}
				t := p.TypesInfo.TypeOf(rs.X)
				if t == nil {
					return true
				}
				if _, ok := t.Underlying().(*types.Map); ok {
					pos := p.Fset.Position(rs.Pos()).String()
					if !seen[pos] {
						seen[pos] = true
						fmt.Println(pos)
					}
				}
				return true
			})
		}
	}
}
