package sim

// monsim: the real channelmonitor.Monitor (+ bep/debounce) against a recording double of the manager API,
// with scripted event timing and scripted failures / latencies of reconnect and restart (C14).

import (
	"context"
	"errors"
	"fmt"
	"sort"
	"time"

	"github.com/ipfs/go-cid"
	"github.com/ipld/go-ipld-prime/datamodel"
	"github.com/libp2p/go-libp2p/core/peer"

	datatransfer "github.com/filecoin-project/go-data-transfer/v2"
	"github.com/filecoin-project/go-data-transfer/v2/channelmonitor"

	"verif/simrt"
)

type monCall struct {
	kind   string // connect, restart, close
	ch     int
	t0, t1 time.Duration
	done   bool
	err    error
	ctxErr bool
}

type monChan struct {
	idx    int
	chid   datatransfer.ChannelID
	other  peer.ID
	push   bool
	added  time.Duration
	addOK  bool
	script []monEv
	// failure scripts
	connectFail int
	restartFail int
	// observed
	shutdownSeen time.Duration // time the first cleanup/terminal event was delivered (-1 = never)
	acceptAt     time.Duration
	finishAt     time.Duration
}

type monEv struct {
	at     time.Duration
	code   datatransfer.EventCode
	status datatransfer.Status
}

type monAPI struct {
	r       *RunCtx
	t0      time.Time
	self    peer.ID
	subs    map[int]datatransfer.Subscriber
	order   []int
	nextSub int
	nsub    int
	nunsub  int
	calls   []*monCall
	chans   []*monChan
	connLat time.Duration
	restLat time.Duration
}

func (a *monAPI) now() time.Duration { return time.Since(a.t0) }

func (a *monAPI) SubscribeToEvents(sub datatransfer.Subscriber) datatransfer.Unsubscribe {
	a.nextSub++
	k := a.nextSub
	a.subs[k] = sub
	a.order = append(a.order, k)
	a.nsub++
	return func() {
		if _, ok := a.subs[k]; ok {
			delete(a.subs, k)
			a.nunsub++
		}
	}
}

func (a *monAPI) byPeer(p peer.ID) *monChan {
	for _, c := range a.chans {
		if c.other == p {
			return c
		}
	}
	return nil
}
func (a *monAPI) byID(id datatransfer.ChannelID) *monChan {
	for _, c := range a.chans {
		if c.chid == id {
			return c
		}
	}
	return nil
}

func (a *monAPI) wait(ctx context.Context, d time.Duration) error {
	if err := ctx.Err(); err != nil {
		return err
	}
	if d <= 0 {
		simrt.Yield("mon.api")
		return ctx.Err()
	}
	cs := []simrt.Case{simrt.R(ctx.Done()), simrt.R(time.After(d))}
	if simrt.Select(cs, false) == 0 {
		return ctx.Err()
	}
	return nil
}

func (a *monAPI) ConnectTo(ctx context.Context, p peer.ID) error {
	c := a.byPeer(p)
	mc := &monCall{kind: "connect", ch: c.idx, t0: a.now()}
	a.calls = append(a.calls, mc)
	err := a.wait(ctx, a.connLat)
	if err != nil {
		mc.ctxErr = true
	} else if c.connectFail > 0 {
		c.connectFail--
		err = errors.New("simmon: cannot reach peer")
	}
	mc.t1, mc.done, mc.err = a.now(), true, err
	a.r.W.Logf("t=%v..%v ConnectTo ch%d -> %v", mc.t0, mc.t1, c.idx, err)
	return err
}

func (a *monAPI) RestartDataTransferChannel(ctx context.Context, chid datatransfer.ChannelID) error {
	c := a.byID(chid)
	mc := &monCall{kind: "restart", ch: c.idx, t0: a.now()}
	a.calls = append(a.calls, mc)
	err := a.wait(ctx, a.restLat)
	if err != nil {
		mc.ctxErr = true
	} else if c.restartFail > 0 {
		c.restartFail--
		err = errors.New("simmon: restart message failed")
	}
	mc.t1, mc.done, mc.err = a.now(), true, err
	a.r.W.Logf("t=%v..%v Restart ch%d -> %v", mc.t0, mc.t1, c.idx, err)
	return err
}

func (a *monAPI) CloseDataTransferChannelWithError(ctx context.Context, chid datatransfer.ChannelID, cherr error) error {
	c := a.byID(chid)
	mc := &monCall{kind: "close", ch: c.idx, t0: a.now(), err: cherr}
	a.r.W.Logf("t=%v CloseWithError ch%d: %v", mc.t0, c.idx, cherr)
	a.calls = append(a.calls, mc)
	simrt.Yield("mon.close")
	mc.t1, mc.done = a.now(), true
	return nil
}

func (a *monAPI) PeerID() peer.ID { return a.self }

// fakeState is the minimal ChannelState the monitor looks at.
type fakeState struct {
	chid   datatransfer.ChannelID
	status datatransfer.Status
}

func (f fakeState) TransferID() datatransfer.TransferID    { return f.chid.ID }
func (f fakeState) BaseCID() cid.Cid                       { return cid.Undef }
func (f fakeState) Selector() datamodel.Node               { return nil }
func (f fakeState) Voucher() datatransfer.TypedVoucher     { return datatransfer.TypedVoucher{} }
func (f fakeState) Sender() peer.ID                        { return f.chid.Initiator }
func (f fakeState) Recipient() peer.ID                     { return f.chid.Responder }
func (f fakeState) TotalSize() uint64                      { return 0 }
func (f fakeState) IsPull() bool                           { return false }
func (f fakeState) ChannelID() datatransfer.ChannelID      { return f.chid }
func (f fakeState) OtherPeer() peer.ID                     { return f.chid.Responder }
func (f fakeState) SelfPeer() peer.ID                      { return f.chid.Initiator }
func (f fakeState) Status() datatransfer.Status            { return f.status }
func (f fakeState) Sent() uint64                           { return 0 }
func (f fakeState) Received() uint64                       { return 0 }
func (f fakeState) Message() string                        { return "" }
func (f fakeState) Vouchers() []datatransfer.TypedVoucher  { return nil }
func (f fakeState) VoucherResults() []datatransfer.TypedVoucher { return nil }
func (f fakeState) LastVoucher() datatransfer.TypedVoucher { return datatransfer.TypedVoucher{} }
func (f fakeState) LastVoucherResult() datatransfer.TypedVoucher { return datatransfer.TypedVoucher{} }
func (f fakeState) ReceivedCidsTotal() int64               { return 0 }
func (f fakeState) QueuedCidsTotal() int64                 { return 0 }
func (f fakeState) SentCidsTotal() int64                   { return 0 }
func (f fakeState) Queued() uint64                         { return 0 }
func (f fakeState) DataLimit() uint64                      { return 0 }
func (f fakeState) RequiresFinalization() bool             { return false }
func (f fakeState) InitiatorPaused() bool                  { return false }
func (f fakeState) ResponderPaused() bool                  { return false }
func (f fakeState) BothPaused() bool                       { return false }
func (f fakeState) SelfPaused() bool                       { return false }
func (f fakeState) Stages() *datatransfer.ChannelStages    { return &datatransfer.ChannelStages{} }

var _ datatransfer.ChannelState = fakeState{}

func durOf(r *RunCtx, choices ...time.Duration) time.Duration { return choices[r.Intn(len(choices))] }

func monScenario(disabled bool) func(r *RunCtx) {
	return func(r *RunCtx) {
		api := &monAPI{r: r, t0: time.Now(), self: peer.ID("peer-A"), subs: map[int]datatransfer.Subscriber{}}
		var cfg *channelmonitor.Config
		if !disabled {
			cfg = &channelmonitor.Config{
				AcceptTimeout:          durOf(r, 0, 5*time.Second, 30*time.Second),
				RestartDebounce:        durOf(r, time.Millisecond, 50*time.Millisecond, 500*time.Millisecond, time.Second),
				RestartBackoff:         durOf(r, 0, 500*time.Millisecond, 2*time.Second, 5*time.Second),
				MaxConsecutiveRestarts: uint32(1 + r.Intn(4)),
				CompleteTimeout:        durOf(r, 0, 3*time.Second, 20*time.Second),
			}
		}
		api.connLat = durOf(r, 0, 10*time.Millisecond, time.Second, 3*time.Second)
		api.restLat = durOf(r, 0, 10*time.Millisecond, time.Second, 3*time.Second)
		mon := channelmonitor.NewMonitor(api, cfg)
		nch := 1 + r.Intn(3)
		type added interface{ Shutdown() bool }
		for i := 0; i < nch; i++ {
			c := &monChan{idx: i, other: peer.ID(fmt.Sprintf("peer-X%d", i)), push: r.Intn(2) == 0, shutdownSeen: -1, acceptAt: -1, finishAt: -1}
			c.chid = datatransfer.ChannelID{Initiator: api.self, Responder: c.other, ID: datatransfer.TransferID(100 + i)}
			if r.Intn(3) == 0 {
				c.connectFail = r.Intn(4)
			}
			if r.Intn(3) == 0 {
				c.restartFail = r.Intn(4)
			}
			if r.Intn(6) == 0 {
				c.connectFail = 1000 // persistent failure
			}
			// script: times in ms, bursts of errors, data events, accept, finish, ending
			t := time.Duration(0)
			n := 2 + r.Intn(14)
			ended := false
			for k := 0; k < n && !ended; k++ {
				switch r.Intn(3) {
				case 0:
					t += time.Duration(r.Intn(40)) * time.Millisecond
				case 1:
					t += time.Duration(r.Intn(3000)) * time.Millisecond
				default:
					t += time.Duration(r.Intn(12)) * time.Second
				}
				var ev monEv
				switch x := r.Intn(20); {
				case x < 7:
					ev = monEv{t, []datatransfer.EventCode{datatransfer.SendDataError, datatransfer.ReceiveDataError}[r.Intn(2)], datatransfer.Ongoing}
				case x < 11:
					ev = monEv{t, []datatransfer.EventCode{datatransfer.DataSent, datatransfer.DataReceived}[r.Intn(2)], datatransfer.Ongoing}
				case x < 14:
					ev = monEv{t, datatransfer.Accept, datatransfer.Ongoing}
				case x < 16:
					ev = monEv{t, datatransfer.FinishTransfer, datatransfer.TransferFinished}
				case x < 18:
					ev = monEv{t, datatransfer.Disconnected, datatransfer.Ongoing}
				default:
					st := []datatransfer.Status{datatransfer.Completing, datatransfer.Completed, datatransfer.Cancelling, datatransfer.Failing, datatransfer.Failed, datatransfer.Cancelled}[r.Intn(6)]
					code := datatransfer.CleanupComplete
					if st == datatransfer.Completing {
						code = datatransfer.ResponderCompletes
					} else if st == datatransfer.Cancelling {
						code = datatransfer.Cancel
					} else if st == datatransfer.Failing {
						code = datatransfer.Error
					}
					ev = monEv{t, code, st}
					ended = true
				}
				c.script = append(c.script, ev)
			}
			api.chans = append(api.chans, c)
		}
		// add channels (some a bit later than t=0)
		handles := make([]added, nch)
		for _, c := range api.chans {
			c.added = api.now()
			var h interface{ Shutdown() bool }
			if c.push {
				if m := mon.AddPushChannel(c.chid); m != nil {
					h, c.addOK = m, true
				}
			} else {
				if m := mon.AddPullChannel(c.chid); m != nil {
					h, c.addOK = m, true
				}
			}
			handles[c.idx] = h
		}
		// single notifier task delivers all events in time order (the manager's notifier is one goroutine)
		type item struct {
			c  *monChan
			ev monEv
		}
		var all []item
		for _, c := range api.chans {
			for _, ev := range c.script {
				all = append(all, item{c, ev})
			}
		}
		sort.SliceStable(all, func(i, j int) bool { return all[i].ev.at < all[j].ev.at })
		type delivered struct {
			ch   int
			at   time.Duration
			code datatransfer.EventCode
			st   datatransfer.Status
		}
		var dl []delivered
		r.Op("A", "notifier", func() {
			for _, it := range all {
				if d := it.ev.at - api.now(); d > 0 {
					simrt.Sleep(d)
				}
				at := api.now()
				dl = append(dl, delivered{it.c.idx, at, it.ev.code, it.ev.status})
				r.W.Logf("t=%v deliver ch%d %s status=%s", at, it.c.idx, datatransfer.Events[it.ev.code], datatransfer.Statuses[it.ev.status])
				st := fakeState{chid: it.c.chid, status: it.ev.status}
				for _, k := range append([]int(nil), api.order...) {
					if sub, ok := api.subs[k]; ok {
						sub(datatransfer.Event{Code: it.ev.code}, st)
					}
				}
				if (isCleanup(it.ev.status) || isTerminal(it.ev.status)) && it.c.shutdownSeen < 0 {
					it.c.shutdownSeen = at
				}
				if it.ev.code == datatransfer.Accept && it.c.acceptAt < 0 {
					it.c.acceptAt = at
				}
				if it.ev.code == datatransfer.FinishTransfer && it.c.finishAt < 0 {
					it.c.finishAt = at
				}
			}
		})
		simrt.Sleep(15 * time.Minute)
		// ---------------- oracles
		if disabled {
			if api.nsub != 0 || len(api.calls) != 0 {
				r.Failf("C14", "disabled-monitor-acts", "", "monitoring disabled (nil config) but the monitor subscribed %d times and made %d API calls", api.nsub, len(api.calls))
			}
			for _, c := range api.chans {
				if c.addOK {
					r.Failf("C14", "disabled-monitor-acts", "add", "monitoring disabled but Add*Channel returned a monitored channel")
				}
			}
			r.Probe("nontrivial")
			mon.Shutdown()
			return
		}
		for _, c := range api.chans {
			var conns, rests, closes []*monCall
			for _, mc := range api.calls {
				if mc.ch != c.idx {
					continue
				}
				switch mc.kind {
				case "connect":
					conns = append(conns, mc)
				case "restart":
					rests = append(rests, mc)
				case "close":
					closes = append(closes, mc)
				}
			}
			who := fmt.Sprintf("channel %d (cfg %+v, connLat %v restLat %v)", c.idx, *cfg, api.connLat, api.restLat)
			// (a) attempts never overlap: an attempt = connect [+ restart] [+ backoff]; the next connect must not begin before the previous attempt's calls returned
			for i := 1; i < len(conns); i++ {
				prevEnd := conns[i-1].t1
				for _, rc := range rests {
					if rc.t0 >= conns[i-1].t0 && rc.t0 < conns[i].t0 && rc.t1 > prevEnd {
						prevEnd = rc.t1
					}
				}
				if conns[i].ctxErr {
					continue // issued with the already-cancelled context of a shut-down channel: not an attempt
				}
				if !conns[i-1].done || conns[i].t0 < prevEnd {
					r.Failf("C14", "restart-attempts-overlap", "", "%s: restart attempt %d began at %v before attempt %d had returned (%v)", who, i, conns[i].t0, i-1, prevEnd)
				}
			}
			if len(conns) >= 2 {
				r.Probe("several-attempts")
			}
			// (c) attempts between data events never exceed the limit
			var resets []time.Duration
			var errEvents []time.Duration
			for _, d := range dl {
				if d.ch != c.idx {
					continue
				}
				if d.code == datatransfer.DataSent || d.code == datatransfer.DataReceived {
					resets = append(resets, d.at)
				}
				if d.code == datatransfer.SendDataError || d.code == datatransfer.ReceiveDataError {
					if c.shutdownSeen < 0 || d.at < c.shutdownSeen {
						errEvents = append(errEvents, d.at)
					}
				}
			}
			cnt := 0
			ri := 0
			for _, cc := range conns {
				for ri < len(resets) && resets[ri] < cc.t0 {
					cnt = 0
					ri++
				}
				// a reset at exactly the same instant may or may not have been seen: count conservatively
				same := false
				for _, x := range resets {
					if x == cc.t0 {
						same = true
					}
				}
				if same {
					cnt = 0
				}
				if !cc.ctxErr {
					cnt++
				}
				if cnt > int(cfg.MaxConsecutiveRestarts) {
					r.Failf("C14", "too-many-consecutive-restarts", "", "%s: %d restart attempts without data progress in between (limit %d)", who, cnt, cfg.MaxConsecutiveRestarts)
					break
				}
			}
			// (d) at most one close
			if len(closes) > 1 {
				r.Failf("C14", "closed-twice", "", "%s: CloseDataTransferChannelWithError called %d times", who, len(closes))
			}
			if len(closes) == 1 {
				r.Probe("closed-with-error")
			}
			// (b) a trigger that fires during an attempt leads to a further attempt afterwards (unless the channel ended / was closed)
			var triggers []time.Duration
			for i, t := range errEvents {
				if i+1 < len(errEvents) && errEvents[i+1]-t <= cfg.RestartDebounce {
					continue // debounced into a later one
				}
				triggers = append(triggers, t+cfg.RestartDebounce)
			}
			// upper bound on the number of debounced requests: an event exactly one debounce period after the previous
			// one ties with the timer and may or may not be merged
			maxTriggers := 0
			for i, t := range errEvents {
				if i+1 < len(errEvents) && errEvents[i+1]-t < cfg.RestartDebounce {
					continue
				}
				maxTriggers++
			}
			if len(triggers) > 0 {
				r.Probe("restart-triggered")
			}
			endT := time.Duration(1<<62 - 1)
			if c.shutdownSeen >= 0 {
				endT = c.shutdownSeen
			}
			if len(closes) > 0 && closes[0].t0 < endT {
				endT = closes[0].t0
			}
			for _, tr := range triggers {
				if tr >= endT {
					continue
				}
				// is an attempt in flight strictly around tr?
				for i, cc := range conns {
					attemptEnd := cc.t1
					for _, rc := range rests {
						if rc.t0 >= cc.t0 && (i+1 >= len(conns) || rc.t0 < conns[i+1].t0) {
							attemptEnd = rc.t1
							if rc.err == nil {
								attemptEnd += cfg.RestartBackoff
							}
						}
					}
					if cc.t0 < tr && tr < attemptEnd && attemptEnd < endT {
						r.Probe("trigger-during-attempt")
						later := false
						for _, c2 := range conns {
							if c2.t0 >= attemptEnd {
								later = true
							}
						}
						if !later {
							r.Failf("C14", "queued-restart-lost", "", "%s: a restart was requested at %v while an attempt was in flight (%v..%v) but no attempt followed it", who, tr, cc.t0, attemptEnd)
						}
					}
				}
				// some attempt must start at or after the first trigger at all
			}
			if len(triggers) > 0 && triggers[0] < endT && len(conns) == 0 {
				r.Failf("C14", "error-never-restarts", "", "%s: transport errors were reported (first trigger %v) but no restart attempt was made", who, triggers[0])
			}
			succ := 0
			for _, rc := range rests {
				if rc.err == nil && rc.done {
					succ++
				}
			}
			if succ > maxTriggers {
				r.Failf("C14", "more-restarts-than-requests", "", "%s: %d successful restarts for at most %d (debounced) restart requests", who, succ, maxTriggers)
			}
			// persistent failure closes the channel
			if c.connectFail >= 900 && len(triggers) > 0 && triggers[0] < endT && len(closes) == 0 && c.shutdownSeen < 0 {
				r.Failf("C14", "persistent-failure-not-closed", "", "%s: reconnecting fails persistently yet the channel was never closed with an error", who)
			}
			// (e) accept timeout
			if c.addOK {
				deadline := c.added + cfg.AcceptTimeout
				timeoutClose := false
				for _, cl := range closes {
					if cfg.AcceptTimeout > 0 && cl.t0 == deadline && cl.err != nil && containsStr(cl.err.Error(), "Accept") {
						timeoutClose = true
					}
					if cl.err != nil && containsStr(cl.err.Error(), "timed out") && containsStr(cl.err.Error(), "Accept") && (cfg.AcceptTimeout == 0 || cl.t0 != deadline) {
						r.Failf("C14", "accept-timeout-wrong-time", "", "%s: accept-timeout close at %v, deadline %v (timeout %v)", who, cl.t0, deadline, cfg.AcceptTimeout)
					}
				}
				if cfg.AcceptTimeout > 0 {
					arrived := c.acceptAt >= 0 && c.acceptAt < deadline
					ended := (c.shutdownSeen >= 0 && c.shutdownSeen < deadline) || (len(closes) > 0 && closes[0].t0 < deadline)
					tie := c.acceptAt == deadline || c.shutdownSeen == deadline || (len(closes) > 0 && closes[0].t0 == deadline && !timeoutClose)
					if !tie {
						if !arrived && !ended && !timeoutClose {
							r.Failf("C14", "accept-timeout-missed", "", "%s: no Accept before %v yet the channel was not closed at the accept timeout", who, deadline)
						}
						if (arrived || ended) && timeoutClose {
							r.Failf("C14", "accept-timeout-spurious", "", "%s: closed by the accept timeout although Accept arrived at %v / channel ended at %v (deadline %v)", who, c.acceptAt, c.shutdownSeen, deadline)
						}
					}
					if timeoutClose {
						r.Probe("accept-timeout-fired")
					}
				}
				// (f) complete timeout
				if c.finishAt >= 0 && (c.shutdownSeen < 0 || c.finishAt < c.shutdownSeen) {
					deadline := c.finishAt + cfg.CompleteTimeout
					fired := false
					for _, cl := range closes {
						if cl.err != nil && containsStr(cl.err.Error(), "Complete") {
							fired = true
							if cfg.CompleteTimeout == 0 || cl.t0 != deadline {
								r.Failf("C14", "complete-timeout-wrong-time", "", "%s: complete-timeout close at %v, FinishTransfer at %v, timeout %v", who, cl.t0, c.finishAt, cfg.CompleteTimeout)
							}
						}
					}
					if cfg.CompleteTimeout > 0 {
						ended := (c.shutdownSeen >= 0 && c.shutdownSeen < deadline) || (len(closes) > 0 && closes[0].t0 < deadline)
						tie := c.shutdownSeen == deadline || (len(closes) > 0 && closes[0].t0 == deadline && !fired)
						if !tie && !ended && !fired {
							r.Failf("C14", "complete-timeout-missed", "", "%s: FinishTransfer at %v, no cleanup/terminal event before %v, yet no complete-timeout close", who, c.finishAt, deadline)
						}
						if !tie && ended && fired {
							r.Failf("C14", "complete-timeout-spurious", "", "%s: complete-timeout fired although the channel ended before the deadline", who)
						}
						if fired {
							r.Probe("complete-timeout-fired")
						}
					}
				}
			}
			// (g) after the monitor saw the channel cleaning up / terminal: no restart message, no close
			if c.shutdownSeen >= 0 {
				r.Probe("shutdown-seen")
				for _, rc := range rests {
					if rc.t0 > c.shutdownSeen && !rc.ctxErr {
						r.Failf("C14", "restart-after-shutdown", "", "%s: restart message issued at %v after the monitor saw the channel end at %v", who, rc.t0, c.shutdownSeen)
					}
				}
				for _, cl := range closes {
					if cl.t0 > c.shutdownSeen {
						r.Failf("C14", "close-after-shutdown", "", "%s: close-with-error at %v after the monitor saw the channel end at %v", who, cl.t0, c.shutdownSeen)
					}
				}
				// forgotten: the same id can be added again
				var again bool
				if c.push {
					again = mon.AddPushChannel(c.chid) != nil
				} else {
					again = mon.AddPullChannel(c.chid) != nil
				}
				if !again {
					r.Failf("C14", "channel-not-forgotten", "", "%s: after the channel ended the monitor still lists it (cannot be added again)", who)
				}
			}
		}
		// unsubscribed: one live subscription per channel that has not ended
		live := 0
		for _, c := range api.chans {
			if c.addOK && c.shutdownSeen < 0 {
				closed := false
				for _, mc := range api.calls {
					if mc.kind == "close" && mc.ch == c.idx {
						closed = true
					}
				}
				if !closed {
					live++
				}
			}
		}
		// channels re-added by oracle (g) subscribe again
		readded := 0
		for _, c := range api.chans {
			if c.shutdownSeen >= 0 {
				readded++
			}
		}
		if len(api.subs) != live+readded {
			r.Failf("C14", "subscription-leak", "", "%d subscriptions are live but %d channels are still monitored (+%d re-added by the check)", len(api.subs), live, readded)
		}
		r.Probe("nontrivial")
		r.Sample["config"] = fmt.Sprintf("%+v", *cfg)
		r.Sample["channels"] = nch
		r.Sample["api_calls"] = len(api.calls)
		r.Sample["events"] = len(dl)
		mon.Shutdown()
	}
}

func containsStr(s, sub string) bool {
	return len(sub) == 0 || (len(s) >= len(sub) && (func() bool {
		for i := 0; i+len(sub) <= len(s); i++ {
			if s[i:i+len(sub)] == sub {
				return true
			}
		}
		return false
	})())
}

func init() {
	Register("C14",
		Stratum{Name: "monitor-scripted", Weight: 9, Fn: monScenario(false), MaxSteps: 300_000, Horizon: 3 * time.Hour},
		Stratum{Name: "monitor-disabled", Weight: 1, Fn: monScenario(true), MaxSteps: 100_000, Horizon: time.Hour},
	)
}
