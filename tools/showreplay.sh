#!/bin/bash
# showreplay.sh <replay.json> [grep -v pattern]
W=${W:-/tmp/w1}
cd $W && VERIF_PROP=replay VERIF_REPLAY=$1 VERIF_SHOWLOG=1 GOLOG_LOG_LEVEL=fatal ./sim.test -test.run '^TestWorker$' 2>&1 | grep -v "^  sched" | grep -v "${2:-gs peer.*resp .*idx=\|DataQueued\|DataSent\|DataReceived}"
