package sim

// tpsim: two real graphsync Transports (transport/graphsync + extension) over SimGraphsync, each with a
// scripted recording EventsHandler and no manager (C16; transport-level clauses of C09, C10, C20).

import (
	"context"
	"errors"
	"fmt"
	"sort"
	"time"

	"github.com/ipfs/go-cid"
	"github.com/ipfs/go-graphsync"
	"github.com/ipld/go-ipld-prime"
	"github.com/ipld/go-ipld-prime/datamodel"
	cidlink "github.com/ipld/go-ipld-prime/linking/cid"
	"github.com/ipld/go-ipld-prime/node/basicnode"
	selectorparse "github.com/ipld/go-ipld-prime/traversal/selector/parse"
	"github.com/libp2p/go-libp2p/core/peer"

	datatransfer "github.com/filecoin-project/go-data-transfer/v2"
	"github.com/filecoin-project/go-data-transfer/v2/message"
	gst "github.com/filecoin-project/go-data-transfer/v2/transport/graphsync"
	"github.com/filecoin-project/go-data-transfer/v2/transport/graphsync/extension"

	"verif/simrt"
)

type tpCall struct {
	step      int
	hookBegin int
	kind      string
	chid      datatransfer.ChannelID
	link      cid.Cid
	size      uint64
	index     int64
	unique    bool
	err       error
	sum       MsgSum
}

type tpNode struct {
	name  string
	id    peer.ID
	r     *RunCtx
	gs    *GS
	tp    *gst.Transport
	store *Store
	calls []tpCall
	// scripts
	pauseQueuedAt   map[datatransfer.ChannelID]int // pause on the n-th queued block
	pauseReceivedAt map[datatransfer.ChannelID]int
	pauseOnRequest  map[datatransfer.ChannelID]bool
	nQueued         map[datatransfer.ChannelID]int
	nReceived       map[datatransfer.ChannelID]int
	maxRecvIdx      map[datatransfer.ChannelID]int64
	rejectOpened    map[datatransfer.ChannelID]bool
}

func (n *tpNode) rec(c tpCall) {
	c.step = n.r.S.Steps
	if t := n.r.S.CurrentTask(); t != nil {
		c.hookBegin = HookBegin[t]
	}
	n.calls = append(n.calls, c)
	if LogAll {
		n.r.W.Logf("%s handler %s chid=%d idx=%d size=%d unique=%v msg=%s err=%v", n.name, c.kind, c.chid.ID, c.index, c.size, c.unique, c.sum.Kind(), c.err)
	}
}

func (n *tpNode) OnChannelOpened(chid datatransfer.ChannelID) error {
	var err error
	if n.rejectOpened[chid] {
		err = datatransfer.ErrChannelNotFound
	}
	n.rec(tpCall{kind: "opened", chid: chid, err: err})
	return err
}
func (n *tpNode) OnResponseReceived(chid datatransfer.ChannelID, msg datatransfer.Response) error {
	n.rec(tpCall{kind: "response", chid: chid, sum: Summarise(msg)})
	return nil
}
func (n *tpNode) OnDataReceived(chid datatransfer.ChannelID, link ipld.Link, size uint64, index int64, unique bool) error {
	n.nReceived[chid]++
	if index > n.maxRecvIdx[chid] {
		n.maxRecvIdx[chid] = index
	}
	var err error
	if k := n.pauseReceivedAt[chid]; k > 0 && n.nReceived[chid] == k {
		err = datatransfer.ErrPause
	}
	n.rec(tpCall{kind: "received", chid: chid, link: link.(cidlink.Link).Cid, size: size, index: index, unique: unique, err: err})
	return err
}
func (n *tpNode) OnDataQueued(chid datatransfer.ChannelID, link ipld.Link, size uint64, index int64, unique bool) (datatransfer.Message, error) {
	n.nQueued[chid]++
	var err error
	var msg datatransfer.Message
	if k := n.pauseQueuedAt[chid]; k > 0 && n.nQueued[chid] == k {
		err = datatransfer.ErrPause
		msg = message.UpdateResponse(chid.ID, true)
	}
	n.rec(tpCall{kind: "queued", chid: chid, link: link.(cidlink.Link).Cid, size: size, index: index, unique: unique, err: err})
	return msg, err
}
func (n *tpNode) OnDataSent(chid datatransfer.ChannelID, link ipld.Link, size uint64, index int64, unique bool) error {
	n.rec(tpCall{kind: "sent", chid: chid, link: link.(cidlink.Link).Cid, size: size, index: index, unique: unique})
	return nil
}
func (n *tpNode) OnTransferInitiated(chid datatransfer.ChannelID) {
	n.rec(tpCall{kind: "initiated", chid: chid})
}
func (n *tpNode) OnRequestReceived(chid datatransfer.ChannelID, msg datatransfer.Request) (datatransfer.Response, error) {
	var resp datatransfer.Response
	var err error
	switch {
	case msg.IsNew():
		resp, _ = message.NewResponse(msg.TransferID(), true, n.pauseOnRequest[chid], nil)
	case msg.IsRestart():
		resp, _ = message.RestartResponse(msg.TransferID(), true, n.pauseOnRequest[chid], nil)
	}
	if n.pauseOnRequest[chid] && (msg.IsNew() || msg.IsRestart()) {
		err = datatransfer.ErrPause
	}
	n.rec(tpCall{kind: "request", chid: chid, sum: Summarise(msg), err: err})
	return resp, err
}
func (n *tpNode) OnChannelCompleted(chid datatransfer.ChannelID, err error) error {
	n.rec(tpCall{kind: "completed", chid: chid, err: err})
	return nil
}
func (n *tpNode) OnRequestCancelled(chid datatransfer.ChannelID, err error) error {
	n.rec(tpCall{kind: "cancelled", chid: chid, err: err})
	return nil
}
func (n *tpNode) OnRequestDisconnected(chid datatransfer.ChannelID, err error) error {
	n.rec(tpCall{kind: "disconnected", chid: chid, err: err})
	return nil
}
func (n *tpNode) OnSendDataError(chid datatransfer.ChannelID, err error) error {
	n.rec(tpCall{kind: "send-error", chid: chid, err: err})
	return nil
}
func (n *tpNode) OnReceiveDataError(chid datatransfer.ChannelID, err error) error {
	n.rec(tpCall{kind: "receive-error", chid: chid, err: err})
	return nil
}
func (n *tpNode) OnContextAugment(chid datatransfer.ChannelID) func(context.Context) context.Context {
	return func(ctx context.Context) context.Context { return ctx }
}

type tpChan struct {
	idx       int
	chid      datatransfer.ChannelID
	pull      bool
	req, resp *tpNode // graphsync requester (data receiver) and responder (data sender)
	root      cid.Cid
	sel       datamodel.Node
	links     map[cid.Cid]bool
	nblocks   int
	storeReq  *Store
	storeResp *Store
	useStore  [2]bool // requester, responder
	opens     int
	// cleanup bookkeeping per node name: step at which CleanupChannel returned
	cleanedAt map[string]int   // first cleanup
	cleanups  map[string][]int // every cleanup
	closedAt  map[string]int
}

func (c *tpChan) openMsg(restart bool) datatransfer.Message {
	v := datatransfer.TypedVoucher{Voucher: basicnode.NewString("v"), Type: "T0"}
	if c.pull {
		m, _ := message.NewRequest(c.chid.ID, restart, true, &v, c.root, c.sel)
		return m
	}
	if restart {
		m, _ := message.RestartResponse(c.chid.ID, true, false, nil)
		return m
	}
	m, _ := message.NewResponse(c.chid.ID, true, false, nil)
	return m
}

func tpScenario(r *RunCtx) { tpScenarioMode(r, false) }

// tpRequesterAway biases the drivers towards the sequence "requester pauses (= cancels at the responder), the
// responder resumes with a message while the requester is away, the requester comes back", repeated.
func tpRequesterAway(r *RunCtx) { tpScenarioMode(r, true) }

func tpScenarioMode(r *RunCtx, away bool) {
	w := r.W
	mk := func(name string) *tpNode {
		n := &tpNode{name: name, id: peer.ID("peer-" + name), r: r, store: NewStore(),
			pauseQueuedAt: map[datatransfer.ChannelID]int{}, pauseReceivedAt: map[datatransfer.ChannelID]int{}, pauseOnRequest: map[datatransfer.ChannelID]bool{},
			nQueued: map[datatransfer.ChannelID]int{}, nReceived: map[datatransfer.ChannelID]int{}, maxRecvIdx: map[datatransfer.ChannelID]int64{}, rejectOpened: map[datatransfer.ChannelID]bool{}}
		n.gs = w.GS.NewGS(n.id, n.store.LinkSystem())
		n.gs.Label = name
		n.tp = gst.NewTransport(n.id, n.gs)
		if err := n.tp.SetEventHandler(n); err != nil {
			r.HarnessErr = "SetEventHandler: " + err.Error()
		}
		return n
	}
	A, B := mk("A"), mk("B")
	S := w.GS.NewGS(peer.ID("peer-S"), NewStore().LinkSystem()) // stranger graphsync endpoint without data-transfer
	S.Label = "S"
	nodes := map[string]*tpNode{"A": A, "B": B}
	nch := 1 + r.Intn(3)
	var chans []*tpChan
	for i := 0; i < nch; i++ {
		c := &tpChan{idx: i, pull: r.Intn(2) == 0, sel: selectorparse.CommonSelector_ExploreAllRecursively, links: map[cid.Cid]bool{}, cleanedAt: map[string]int{}, cleanups: map[string][]int{}, closedAt: map[string]int{}}
		// A is always the data-transfer initiator; for a pull A requests, for a push B requests
		if c.pull {
			c.req, c.resp = A, B
		} else {
			c.req, c.resp = B, A
		}
		c.chid = datatransfer.ChannelID{Initiator: A.id, Responder: B.id, ID: datatransfer.TransferID(500 + i)}
		c.storeReq, c.storeResp = c.req.store, c.resp.store
		if r.Intn(3) == 0 {
			c.useStore[0] = true
			c.storeReq = NewStore()
		}
		if r.Intn(3) == 0 {
			c.useStore[1] = true
			c.storeResp = NewStore()
		}
		c.root, _ = GenDAG(c.storeResp, r.Intn, 10+i)
		vis, _, _ := walk(c.storeResp.LinkSystem(), c.root, c.sel, -1, func(_ int, k cid.Cid) ([]byte, bool) { return loadLocal(c.storeResp.LinkSystem(), k) })
		for _, v := range vis {
			c.links[v.link] = true
		}
		c.nblocks = len(vis)
		if r.Intn(4) == 0 {
			c.resp.pauseQueuedAt[c.chid] = 1 + r.Intn(c.nblocks)
		}
		if r.Intn(5) == 0 {
			c.req.pauseReceivedAt[c.chid] = 1 + r.Intn(c.nblocks)
		}
		if r.Intn(6) == 0 {
			c.resp.pauseOnRequest[c.chid] = true
		}
		chans = append(chans, c)
	}
	type skipRec struct {
		c      *tpChan
		want   int64
		step   int
		opened bool
	}
	var skips []*skipRec
	type queuedMsg struct {
		c    *tpChan
		enc  string
		step int
	}
	var resumeMsgs []queuedMsg
	open := func(c *tpChan, restart bool) {
		c.opens++
		var st datatransfer.ChannelState
		sr := &skipRec{c: c, step: r.S.Steps}
		if restart {
			n := c.req.maxRecvIdx[c.chid]
			st = fakeRecvState{fakeState{chid: c.chid, status: datatransfer.Ongoing}, n}
			sr.want = n
			skips = append(skips, sr)
			// the manager re-applies the channel's transport options on every restart in the same process: UseStore is
			// called again for a store that is already registered (the transport reports that; the option ignores it)
			if c.useStore[0] {
				if _, cleaned := c.cleanedAt[c.req.name]; !cleaned {
					err := c.req.tp.UseStore(c.chid, c.storeReq.LinkSystem())
					w.Logf("OP %s UseStore again #%d -> %v", c.req.name, c.idx, err)
					r.Probe("store-configured-again-on-restart")
				}
			}
		}
		err := c.req.tp.OpenChannel(context.Background(), c.resp.id, c.chid, cidlink.Link{Cid: c.root}, c.sel, st, c.openMsg(restart))
		sr.opened = err == nil
		w.Logf("OP %s OpenChannel #%d restart=%v -> %v", c.req.name, c.idx, restart, err)
	}
	// per-channel driver tasks
	for _, c := range chans {
		c := c
		r.Op(c.req.name, fmt.Sprintf("driver#%d", c.idx), func() {
			for side, use := range c.useStore {
				if !use {
					continue
				}
				n, st := c.req, c.storeReq
				if side == 1 {
					n, st = c.resp, c.storeResp
				}
				if err := n.tp.UseStore(c.chid, st.LinkSystem()); err != nil {
					r.HarnessErr = "UseStore: " + err.Error()
				}
			}
			open(c, false)
			nops := r.Intn(7)
			if away {
				nops = 0
				rounds := 1 + r.Intn(3)
				for k := 0; k < rounds; k++ {
					yieldN(1 + r.Intn(6*c.nblocks+4))
					err := c.req.tp.PauseChannel(context.Background(), c.chid)
					w.Logf("OP %s PauseChannel #%d -> %v", c.req.name, c.idx, err)
					yieldN(4 + r.Intn(6*c.nblocks+4))
					if r.Intn(4) != 0 {
						tv := datatransfer.TypedVoucher{Voucher: basicnode.NewString(fmt.Sprintf("away-%d-%d", c.idx, k)), Type: "Q"}
						var msg datatransfer.Message
						if c.resp == A {
							msg, _ = message.VoucherRequest(c.chid.ID, &tv)
						} else {
							msg, _ = message.VoucherResultResponse(c.chid.ID, true, false, &tv)
						}
						resumeMsgs = append(resumeMsgs, queuedMsg{c: c, enc: encNode(tv.Voucher), step: r.S.Steps})
						err := c.resp.tp.ResumeChannel(context.Background(), msg, c.chid)
						w.Logf("OP %s ResumeChannel(msg) #%d -> %v", c.resp.name, c.idx, err)
						yieldN(r.Intn(6))
					}
					var rmsg datatransfer.Message
					if c.req == A {
						rmsg = message.UpdateRequest(c.chid.ID, false)
					} else {
						rmsg = message.UpdateResponse(c.chid.ID, false)
					}
					err = c.req.tp.ResumeChannel(context.Background(), rmsg, c.chid)
					w.Logf("OP %s ResumeChannel #%d -> %v", c.req.name, c.idx, err)
				}
			}
			for k := 0; k < nops; k++ {
				yieldN(1 + r.Intn(8*c.nblocks+4))
				n := c.req
				if r.Intn(2) == 0 {
					n = c.resp
				}
				switch r.Intn(7) {
				case 0:
					err := n.tp.PauseChannel(context.Background(), c.chid)
					w.Logf("OP %s PauseChannel #%d -> %v", n.name, c.idx, err)
				case 1, 2:
					var msg datatransfer.Message
					if n == A {
						msg = message.UpdateRequest(c.chid.ID, false)
					} else {
						msg = message.UpdateResponse(c.chid.ID, false)
					}
					// a distinguishable message: voucher result / voucher with a unique payload
					if r.Intn(2) == 0 {
						tv := datatransfer.TypedVoucher{Voucher: basicnode.NewString(fmt.Sprintf("q-%d-%d", c.idx, k)), Type: "Q"}
						if n == A {
							msg, _ = message.VoucherRequest(c.chid.ID, &tv)
						} else {
							msg, _ = message.VoucherResultResponse(c.chid.ID, true, false, &tv)
						}
						resumeMsgs = append(resumeMsgs, queuedMsg{c: c, enc: encNode(tv.Voucher), step: r.S.Steps})
					}
					err := n.tp.ResumeChannel(context.Background(), msg, c.chid)
					w.Logf("OP %s ResumeChannel #%d -> %v", n.name, c.idx, err)
				case 3:
					if n == c.req {
						open(c, true)
					}
				case 4:
					call := r.OpE(n.name, "CloseChannel", func() error { return n.tp.CloseChannel(context.Background(), c.chid) })
					_ = call
					yieldN(3)
					c.closedAt[n.name] = r.S.Steps
				case 5:
					n.tp.CleanupChannel(c.chid)
					if _, ok := c.cleanedAt[n.name]; !ok {
						c.cleanedAt[n.name] = r.S.Steps
					}
					c.cleanups[n.name] = append(c.cleanups[n.name], r.S.Steps)
					w.Logf("OP %s CleanupChannel #%d", n.name, c.idx)
				case 6:
					// plain / foreign graphsync traffic aimed at the responder
					target := c.resp
					switch r.Intn(3) {
					case 0: // no data-transfer extension at all
						S.Request(context.Background(), target.id, cidlink.Link{Cid: c.root}, c.sel)
					case 1: // malformed data-transfer extension
						S.Request(context.Background(), target.id, cidlink.Link{Cid: c.root}, c.sel, graphsync.ExtensionData{Name: extension.ExtensionDataTransfer1_1, Data: basicnode.NewString("not a message")})
					default: // well-formed request for a transfer id nobody opened, from a stranger
						v := datatransfer.TypedVoucher{Voucher: basicnode.NewString("x"), Type: "T0"}
						m, _ := message.NewRequest(datatransfer.TransferID(9000+k), false, true, &v, c.root, c.sel)
						exts, _ := extension.ToExtensionData(m, []graphsync.ExtensionName{extension.ExtensionDataTransfer1_1})
						S.Request(context.Background(), target.id, cidlink.Link{Cid: c.root}, c.sel, exts...)
					}
					r.Probe("foreign-graphsync-request")
				}
			}
		})
	}
	simrt.Sleep(10 * time.Minute)
	// ---------------------------------------------------------------- oracles
	byID := map[datatransfer.ChannelID]*tpChan{}
	for _, c := range chans {
		byID[c.chid] = c
	}
	strangerChan := func(id datatransfer.ChannelID) bool { return id.ID >= 9000 }
	for _, n := range []*tpNode{A, B} {
		completedCalls := map[datatransfer.ChannelID][]tpCall{}
		for _, call := range n.calls {
			c := byID[call.chid]
			if c == nil {
				if strangerChan(call.chid) && call.chid.Initiator == peer.ID("peer-S") && (call.kind == "request" || call.kind == "initiated" || call.kind == "queued" || call.kind == "sent" || call.kind == "completed" || call.kind == "cancelled" || call.kind == "send-error") {
					continue // the stranger's own well-formed pull request is a channel of its own (named by the stranger's peer id)
				}
				r.Failf("C16", "event-for-unknown-channel", call.kind, "node %s: handler %s was called for channel %v, which no graphsync request of a known channel owns", n.name, call.kind, call.chid)
				continue
			}
			// channel id is built from the authenticated peers
			if call.chid.Initiator != A.id || call.chid.Responder != B.id {
				r.Failf("C16", "channel-id-not-from-peer", call.kind, "node %s: handler %s named channel %v", n.name, call.kind, call.chid)
			}
			// data callbacks name the channel whose DAG the block belongs to
			switch call.kind {
			case "queued", "sent", "received":
				if !c.links[call.link] {
					r.Failf("C16", "block-routed-to-wrong-channel", call.kind, "node %s: %s(%s) was reported for channel #%d, whose DAG does not contain that block", n.name, call.kind, call.link, c.idx)
				}
				wantNode := c.resp
				if call.kind == "received" {
					wantNode = c.req
				}
				if n != wantNode {
					r.Failf("C16", "data-event-on-wrong-side", call.kind, "node %s got a %s callback for channel #%d", n.name, call.kind, c.idx)
				}
			case "completed":
				completedCalls[call.chid] = append(completedCalls[call.chid], call)
			}
			// nothing for a channel after its cleanup (judged by when the enclosing graphsync hook invocation began)
			if cl, ok := c.cleanedAt[n.name]; ok && call.hookBegin > cl && call.step > cl {
				// a later OpenChannel / incoming request legitimately re-tracks the channel: only flag when no request of the
				// channel was opened or received on this node after the cleanup
				reopened := false
				for _, g := range n.gs.Calls {
					if g.Kind == "request" && g.Step > cl {
						if m := dtOf(g.Exts); m != nil && m.TransferID() == c.chid.ID {
							reopened = true
						}
					}
				}
				for _, o := range n.calls {
					if o.chid == c.chid && (o.kind == "request" || o.kind == "response") && o.step > cl && o.step <= call.step {
						reopened = true
					}
				}
				cause := ""
				for _, x := range n.gs.inHistory {
					if m := dtOf(x.exts); m != nil && m.TransferID() == c.chid.ID && x.begin <= cl && cl <= x.step {
						cause = "|incoming-request-hook-straddled-cleanup"
					}
				}
				if !reopened {
					r.Failf("C16", "event-after-cleanup", call.kind+cause, "node %s: handler %s for channel #%d at step %d, although the channel was cleaned up at step %d and no request re-opened it", n.name, call.kind, c.idx, call.step, cl)
				}
			}
		}
		// blocks not put on the wire produce no queued/sent accounting
		for _, c := range chans {
			if n != c.resp {
				continue
			}
			onWire := map[int64]int{}
			for id, idxs := range n.gs.OnWire {
				_ = id
				for _, i := range idxs {
					onWire[i]++
				}
			}
			_ = onWire
		}
		// completed responses: reported at most once each, error iff the response did not complete in full, none for cancellations
		if n == A || n == B {
			full, notFull := 0, 0
			for _, cp := range n.gs.Completions {
				switch cp.Status {
				case graphsync.RequestCancelled:
				case graphsync.RequestCompletedFull:
					full++
				default:
					notFull++
				}
			}
			okc, errc := 0, 0
			for _, calls := range completedCalls {
				for _, cc := range calls {
					if cc.err == nil {
						okc++
					} else {
						errc++
					}
				}
			}
			// requester-side completions come from request terminations
			termOK, termErr := 0, 0
			for _, t := range n.gs.Terminations {
				var ce graphsync.RequestClientCancelledErr
				var re graphsync.RequestCancelledErr
				switch {
				case t.Err == nil:
					termOK++
				case errors.As(t.Err, &ce), errors.As(t.Err, &re):
				default:
					termErr++
				}
			}
			if okc > full+termOK {
				r.Failf("C16", "completion-reported-too-often", n.name+"|ok", "node %s: OnChannelCompleted(nil) called %d times for %d full responses + %d cleanly finished requests", n.name, okc, full, termOK)
			}
			if errc > notFull+termErr {
				r.Failf("C16", "completion-reported-too-often", n.name+"|err", "node %s: OnChannelCompleted(err) called %d times for %d failed/partial responses + %d failed requests (cancellations are not completions)", n.name, errc, notFull, termErr)
			}
			if okc+errc > 0 {
				r.Probe("completion-reported")
			}
		}
	}
	// on-wire-0 blocks: every queued/sent callback corresponds to a block the model put on the wire
	for _, c := range chans {
		wire := 0
		for _, id := range sortedBy(c.resp.gs.OnWire, func(i graphsync.RequestID) string { return i.String() }) {
			idxs := c.resp.gs.OnWire[id]
			// requests of this channel on the responder
			own := false
			for _, x := range c.resp.gs.inHistory {
				if x.id == id {
					if m := dtOf(x.exts); m != nil && m.TransferID() == c.chid.ID {
						own = true
					}
				}
			}
			if own {
				wire += len(idxs)
			}
		}
		q, s := 0, 0
		for _, call := range c.resp.calls {
			if call.chid == c.chid && call.kind == "queued" {
				q++
			}
			if call.chid == c.chid && call.kind == "sent" {
				s++
			}
		}
		if q > wire || s > wire {
			r.Failf("C16", "accounting-for-blocks-not-on-wire", "", "channel #%d: %d queued / %d sent callbacks but only %d blocks were put on the wire (skipped and duplicate blocks must not be reported)", c.idx, q, s, wire)
		}
		if wire < c.nblocks*c.opens && wire > 0 {
			r.Probe("some-blocks-not-on-wire")
		}
	}
	// pause / resume / cancel act on the channel's current request
	for _, n := range []*tpNode{A, B} {
		latest := map[datatransfer.TransferID]graphsync.RequestID{}
		known := map[graphsync.RequestID]datatransfer.TransferID{}
		type ev struct {
			step int
			id   graphsync.RequestID
			tid  datatransfer.TransferID
		}
		var evs []ev
		for _, g := range n.gs.Calls {
			if g.Kind == "request" {
				if m := dtOf(g.Exts); m != nil {
					evs = append(evs, ev{g.Step, g.ID, m.TransferID()})
				}
			}
		}
		for _, x := range n.gs.inHistory {
			if m := dtOf(x.exts); m != nil {
				evs = append(evs, ev{x.step, x.id, m.TransferID()})
			}
		}
		sort.Slice(evs, func(i, j int) bool { return evs[i].step < evs[j].step })
		ei := 0
		for _, g := range n.gs.Calls {
			for ei < len(evs) && evs[ei].step <= g.Step {
				latest[evs[ei].tid] = evs[ei].id
				known[evs[ei].id] = evs[ei].tid
				ei++
			}
			if g.Kind == "pause" || g.Kind == "unpause" {
				tid, ok := known[g.ID]
				if !ok {
					r.Failf("C16", "transport-acts-on-unknown-request", g.Kind, "node %s: graphsync %s for request %s which belongs to no channel", n.name, g.Kind, g.ID)
					continue
				}
				if latest[tid] != g.ID {
					r.Failf("C16", "transport-acts-on-stale-request", g.Kind, "node %s: graphsync %s was applied to request %s of channel %d, whose current request is %s", n.name, g.Kind, g.ID, tid, latest[tid])
				}
				r.Probe("pause-resume-routed")
			}
		}
	}
	// per-channel stores are registered exactly from UseStore to cleanup
	for _, c := range chans {
		for side, n := range []*tpNode{c.req, c.resp} {
			_, reg := n.gs.persist["data-transfer-"+c.chid.String()]
			_, cleaned := c.cleanedAt[n.name]
			if c.useStore[side] && !cleaned && !reg {
				r.Failf("C16", "store-registration", n.name+"|lost", "node %s: the per-channel store of channel #%d is no longer registered although the channel was not cleaned up", n.name, c.idx)
			}
			if cleaned && reg {
				// registered again by a later UseStore? the driver never re-registers
				r.Failf("C16", "store-registration", n.name+"|leaked", "node %s: the per-channel store of channel #%d is still registered after cleanup", n.name, c.idx)
			}
			if !c.useStore[side] && reg {
				r.Failf("C16", "store-registration", n.name+"|spurious", "node %s: a per-channel store is registered for channel #%d which never asked for one", n.name, c.idx)
			}
		}
	}
	// C10: the restart request tells the sender to skip exactly the number of blocks recorded as received
	for _, sr := range skips {
		if !sr.opened {
			continue
		}
		var found *GSCall
		for i := range sr.c.req.gs.Calls {
			g := &sr.c.req.gs.Calls[i]
			if g.Kind == "request" && g.Step >= sr.step {
				if m := dtOf(g.Exts); m != nil && m.TransferID() == sr.c.chid.ID {
					found = g
					break
				}
			}
		}
		if found == nil {
			continue
		}
		r.Probe("restart-skip-checked")
		if found.Skip != sr.want {
			r.Failf("C10", "restart-skip-count", fmt.Sprintf("delta=%d", found.Skip-sr.want), "restart of channel #%d with %d blocks recorded as received asked the sender to skip %d", sr.c.idx, sr.want, found.Skip)
		}
	}
	// C10: a previous request of the channel is cancelled (or over) before the next one is issued
	for _, n := range []*tpNode{A, B} {
		prev := map[datatransfer.TransferID]*GSCall{}
		for i := range n.gs.Calls {
			g := &n.gs.Calls[i]
			if g.Kind != "request" {
				continue
			}
			m := dtOf(g.Exts)
			if m == nil {
				continue
			}
			if p := prev[m.TransferID()]; p != nil {
				cancelled := false
				for _, d := range n.gs.Calls {
					if d.Kind == "cancel" && d.ID == p.ID && d.Step <= g.Step {
						cancelled = true
					}
				}
				if c := byID[datatransfer.ChannelID{Initiator: A.id, Responder: B.id, ID: m.TransferID()}]; c != nil {
					for _, cl := range c.cleanups[n.name] {
						if cl >= p.Step && cl <= g.Step {
							cancelled = true // the driver cleaned the channel up in between: the transport no longer knew the old request
						}
					}
				}
				if !cancelled && !p.EndedBy(g.Step) {
					r.Failf("C10", "old-request-not-cancelled", n.name, "node %s issued a new graphsync request for channel %d while the previous one (%s) was neither cancelled nor finished", n.name, m.TransferID(), p.ID)
				}
				r.Probe("second-gs-request")
			}
			prev[m.TransferID()] = g
		}
	}
	// C10: a message queued while the requester was away is delivered exactly once
	for _, qm := range resumeMsgs {
		cnt := 0
		for _, n := range []*tpNode{A, B} {
			for _, call := range n.calls {
				if (call.kind == "request" || call.kind == "response") && call.chid == qm.c.chid && call.sum.VEnc == qm.enc {
					cnt++
				}
			}
		}
		if cnt > 1 {
			r.Failf("C10", "queued-message-delivered-twice", "", "a message handed to ResumeChannel of channel #%d reached the counterparty %d times", qm.c.idx, cnt)
		}
		if cnt == 1 {
			r.Probe("resume-message-delivered")
		}
	}
	r.Probe("nontrivial")
	r.Sample["channels"] = nch
	r.Sample["handler_calls"] = len(A.calls) + len(B.calls)
	_ = nodes
	_ = A.tp.Shutdown(context.Background())
	_ = B.tp.Shutdown(context.Background())
}

// fakeRecvState is a channel state that only answers ReceivedCidsTotal (what OpenChannel reads on restart).
type fakeRecvState struct {
	fakeState
	recv int64
}

func (f fakeRecvState) ReceivedCidsTotal() int64 { return f.recv }

func init() {
	Register("C16", Stratum{Name: "transport-two-endpoints", Weight: 1, Fn: tpScenario, MaxSteps: 300_000, Horizon: time.Hour})
	Register("C10", Stratum{Name: "transport-two-endpoints", Weight: 2, Fn: tpScenario, MaxSteps: 300_000, Horizon: time.Hour})
	Register("C10", Stratum{Name: "transport-requester-away", Weight: 2, Fn: tpRequesterAway, MaxSteps: 300_000, Horizon: time.Hour})
	Register("C16", Stratum{Name: "transport-requester-away", Weight: 1, Fn: tpRequesterAway, MaxSteps: 300_000, Horizon: time.Hour})
}
