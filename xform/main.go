// xform rewrites Go packages in place so that every synchronisation point
// goes through verif/simrt. Type-directed (go/packages).
package main

import (
	"bytes"
	"flag"
	"fmt"
	"go/ast"
	"go/format"
	"go/token"
	"go/types"
	"os"
	"strconv"
	"strings"

	"golang.org/x/tools/go/ast/astutil"
	"golang.org/x/tools/go/packages"
)

var (
	preempt = flag.Bool("preempt", true, "insert simrt.P() preemption points before statements")
	verbose = flag.Bool("v", false, "verbose")
	modDir  = flag.String("dir", ".", "main module directory")
	roots   = flag.String("roots", "", "comma separated directory prefixes whose files may be rewritten")
)

const simrtPath = "verif/simrt"

type fileCtx struct {
	pkg     *packages.Package
	file    *ast.File
	changed bool
	tmp     int
	stats   map[string]int
}

func (c *fileCtx) fresh(prefix string) *ast.Ident {
	c.tmp++
	return ast.NewIdent("_sr" + prefix + strconv.Itoa(c.tmp))
}

func sel(name string) ast.Expr {
	return &ast.SelectorExpr{X: ast.NewIdent("simrt"), Sel: ast.NewIdent(name)}
}
func call(name string, args ...ast.Expr) *ast.CallExpr {
	return &ast.CallExpr{Fun: sel(name), Args: args}
}
func callStmt(name string, args ...ast.Expr) ast.Stmt { return &ast.ExprStmt{X: call(name, args...)} }

func main() {
	flag.Parse()
	total := map[string]int{}
	rootList := strings.Split(*roots, ",")
	underRoot := func(name string) bool {
		for _, r := range rootList {
			if r != "" && strings.HasPrefix(name, r) {
				return true
			}
		}
		return false
	}
	{
		cfg := &packages.Config{
			Mode: packages.NeedName | packages.NeedFiles | packages.NeedCompiledGoFiles | packages.NeedSyntax | packages.NeedTypes | packages.NeedTypesInfo | packages.NeedImports | packages.NeedDeps,
			Dir:  *modDir,
		}
		pkgs, err := packages.Load(cfg, flag.Args()...)
		if err != nil {
			fmt.Fprintln(os.Stderr, "load:", err)
			os.Exit(2)
		}
		for _, p := range pkgs {
			if len(p.Errors) > 0 {
				for _, e := range p.Errors {
					fmt.Fprintln(os.Stderr, "pkg error:", e)
				}
				os.Exit(2)
			}
			for i, f := range p.Syntax {
				name := p.CompiledGoFiles[i]
				if strings.HasSuffix(name, "_test.go") || !underRoot(name) {
					continue
				}
				c := &fileCtx{pkg: p, file: f, stats: total}
				c.rewrite(name)
				if c.changed {
					astutil.AddImport(p.Fset, f, simrtPath)
					if !astutil.UsesImport(f, "sync") {
						astutil.DeleteImport(p.Fset, f, "sync")
					}
					var buf bytes.Buffer
					if err := format.Node(&buf, p.Fset, f); err != nil {
						fmt.Fprintln(os.Stderr, "format", name, err)
						os.Exit(2)
					}
					if err := os.WriteFile(name, buf.Bytes(), 0o644); err != nil {
						fmt.Fprintln(os.Stderr, err)
						os.Exit(2)
					}
					if *verbose {
						fmt.Println("rewrote", name)
					}
				}
			}
		}
	}
	fmt.Println("xform stats:", total)
}

func (c *fileCtx) isSyncType(e ast.Expr) (string, bool) {
	s, ok := e.(*ast.SelectorExpr)
	if !ok {
		return "", false
	}
	obj := c.pkg.TypesInfo.Uses[s.Sel]
	tn, ok := obj.(*types.TypeName)
	if !ok || tn.Pkg() == nil || tn.Pkg().Path() != "sync" {
		return "", false
	}
	switch tn.Name() {
	case "Mutex", "RWMutex", "Once", "WaitGroup":
		return tn.Name(), true
	}
	return "", false
}

func (c *fileCtx) isChan(e ast.Expr) bool {
	t := c.pkg.TypesInfo.TypeOf(e)
	if t == nil {
		return false
	}
	_, ok := t.Underlying().(*types.Chan)
	return ok
}

func (c *fileCtx) isMap(e ast.Expr) bool {
	t := c.pkg.TypesInfo.TypeOf(e)
	if t == nil {
		return false
	}
	_, ok := t.Underlying().(*types.Map)
	return ok
}

// calleeIs reports whether call is pkgPath.name (function) or a method name on a named type pkgPath.typ.
func (c *fileCtx) calleeIs(call *ast.CallExpr, pkgPath, typ, name string) bool {
	s, ok := call.Fun.(*ast.SelectorExpr)
	if !ok || s.Sel.Name != name {
		return false
	}
	obj := c.pkg.TypesInfo.Uses[s.Sel]
	fn, ok := obj.(*types.Func)
	if !ok || fn.Pkg() == nil || fn.Pkg().Path() != pkgPath {
		return false
	}
	sig := fn.Type().(*types.Signature)
	if typ == "" {
		return sig.Recv() == nil
	}
	if sig.Recv() == nil {
		return false
	}
	rt := sig.Recv().Type()
	if p, ok := rt.(*types.Pointer); ok {
		rt = p.Elem()
	}
	n, ok := rt.(*types.Named)
	return ok && n.Obj().Name() == typ
}

func (c *fileCtx) rewrite(name string) {
	generated := strings.HasSuffix(name, "cbor_gen.go")
	inSelectComm := map[ast.Node]bool{}
	ast.Inspect(c.file, func(n ast.Node) bool {
		if cc, ok := n.(*ast.CommClause); ok && cc.Comm != nil {
			ast.Inspect(cc.Comm, func(m ast.Node) bool {
				if m != nil {
					inSelectComm[m] = true
				}
				return true
			})
		}
		return true
	})

	post := func(cur *astutil.Cursor) bool {
		n := cur.Node()
		switch x := n.(type) {
		case *ast.SelectorExpr:
			if tn, ok := c.isSyncType(x); ok {
				cur.Replace(sel(tn))
				c.changed = true
				c.stats["synctype"]++
			}
		case *ast.GoStmt:
			cur.Replace(c.rewriteGo(x))
			c.changed = true
			c.stats["go"]++
		case *ast.SendStmt:
			if inSelectComm[x] {
				return true
			}
			if _, ok := cur.Parent().(*ast.BlockStmt); ok || isClauseBody(cur) {
				cur.InsertBefore(callStmt("BeforeBlock"))
				cur.InsertAfter(callStmt("AfterBlock"))
				c.changed = true
				c.stats["send"]++
			} else {
				fmt.Fprintf(os.Stderr, "WARN: send in unsupported position %s\n", c.pkg.Fset.Position(x.Pos()))
			}
		case *ast.UnaryExpr:
			if x.Op != token.ARROW || inSelectComm[x] {
				return true
			}
			// v, ok := <-ch
			if as, ok := cur.Parent().(*ast.AssignStmt); ok && len(as.Lhs) == 2 && len(as.Rhs) == 1 && as.Rhs[0] == x {
				cur.Replace(call("Recv2", x.X))
			} else {
				cur.Replace(call("Recv", x.X))
			}
			c.changed = true
			c.stats["recv"]++
		case *ast.SelectStmt:
			cur.Replace(c.rewriteSelect(x))
			c.changed = true
			c.stats["select"]++
		case *ast.LabeledStmt:
			// label on a select that was turned into a block: move label onto the inner switch
			if blk, ok := x.Stmt.(*ast.BlockStmt); ok && len(blk.List) > 0 {
				if sw, ok := blk.List[len(blk.List)-1].(*ast.SwitchStmt); ok && isSimrtSelectSwitch(sw) {
					blk.List[len(blk.List)-1] = &ast.LabeledStmt{Label: x.Label, Stmt: sw}
					cur.Replace(blk)
				}
			}
		case *ast.RangeStmt:
			if c.isMap(x.X) {
				x.X = call("MapIter", x.X)
				c.changed = true
				c.stats["rangemap"]++
			} else if c.isChan(x.X) {
				cur.Replace(c.rewriteRange(x))
				c.changed = true
				c.stats["rangechan"]++
			}
		case *ast.CallExpr:
			switch {
			case c.calleeIs(x, "time", "", "AfterFunc") && len(x.Args) == 2:
				x.Args[1] = call("Spawned", x.Args[1])
				c.changed = true
				c.stats["afterfunc"]++
			case c.calleeIs(x, "golang.org/x/sync/errgroup", "Group", "Go") && len(x.Args) == 1:
				x.Args[0] = call("SpawnedErr", x.Args[0])
				c.changed = true
				c.stats["errgroup.go"]++
			case c.calleeIs(x, "golang.org/x/sync/errgroup", "Group", "Wait"):
				fn := &ast.FuncLit{Type: &ast.FuncType{Params: &ast.FieldList{}, Results: &ast.FieldList{List: []*ast.Field{{Type: ast.NewIdent("error")}}}},
					Body: &ast.BlockStmt{List: []ast.Stmt{&ast.ReturnStmt{Results: []ast.Expr{&ast.CallExpr{Fun: x.Fun}}}}}}
				cur.Replace(call("BlockingErr", fn))
				c.changed = true
				c.stats["errgroup.wait"]++
			}
		}
		return true
	}
	astutil.Apply(c.file, nil, post)

	if *preempt && !generated {
		ast.Inspect(c.file, func(n ast.Node) bool {
			fd, ok := n.(*ast.FuncDecl)
			if !ok || fd.Body == nil {
				return true
			}
			c.insertP(fd.Body)
			return true
		})
	}
}

func isSimrtSelectSwitch(sw *ast.SwitchStmt) bool {
	ce, ok := sw.Tag.(*ast.CallExpr)
	if !ok {
		return false
	}
	s, ok := ce.Fun.(*ast.SelectorExpr)
	if !ok {
		return false
	}
	id, ok := s.X.(*ast.Ident)
	return ok && id.Name == "simrt" && s.Sel.Name == "Select"
}

func isClauseBody(cur *astutil.Cursor) bool {
	switch cur.Parent().(type) {
	case *ast.CaseClause, *ast.CommClause:
		return cur.Index() >= 0
	}
	return false
}

// go f(a, b)  =>  { _f := f; _a := a; _b := b; simrt.Go(func() { _f(_a, _b) }) }
func (c *fileCtx) rewriteGo(g *ast.GoStmt) ast.Stmt {
	callx := g.Call
	if fl, ok := callx.Fun.(*ast.FuncLit); ok && len(callx.Args) == 0 {
		return callStmt("Go", fl)
	}
	var pre []ast.Stmt
	fn := callx.Fun
	if _, ok := fn.(*ast.FuncLit); !ok {
		id := c.fresh("f")
		pre = append(pre, &ast.AssignStmt{Lhs: []ast.Expr{id}, Tok: token.DEFINE, Rhs: []ast.Expr{fn}})
		fn = id
	}
	var args []ast.Expr
	for _, a := range callx.Args {
		id := c.fresh("a")
		pre = append(pre, &ast.AssignStmt{Lhs: []ast.Expr{id}, Tok: token.DEFINE, Rhs: []ast.Expr{a}})
		args = append(args, id)
	}
	inner := &ast.CallExpr{Fun: fn, Args: args, Ellipsis: callx.Ellipsis}
	lit := &ast.FuncLit{Type: &ast.FuncType{Params: &ast.FieldList{}}, Body: &ast.BlockStmt{List: []ast.Stmt{&ast.ExprStmt{X: inner}}}}
	pre = append(pre, callStmt("Go", lit))
	return &ast.BlockStmt{List: pre}
}

func (c *fileCtx) rewriteRange(r *ast.RangeStmt) ast.Stmt {
	ch := c.fresh("c")
	ok := c.fresh("ok")
	var lhs ast.Expr = ast.NewIdent("_")
	tok := token.DEFINE
	if r.Key != nil {
		lhs = r.Key
		if r.Tok == token.ASSIGN {
			// assignment to existing var: need ok declared separately
			tok = token.ASSIGN
		}
	}
	var recv ast.Stmt
	if tok == token.ASSIGN {
		recv = &ast.BlockStmt{} // placeholder, replaced below
	}
	body := []ast.Stmt{}
	if tok == token.DEFINE {
		body = append(body, &ast.AssignStmt{Lhs: []ast.Expr{lhs, ok}, Tok: token.DEFINE, Rhs: []ast.Expr{call("Recv2", ch)}})
	} else {
		body = append(body, &ast.DeclStmt{Decl: &ast.GenDecl{Tok: token.VAR, Specs: []ast.Spec{&ast.ValueSpec{Names: []*ast.Ident{ok}, Type: ast.NewIdent("bool")}}}})
		body = append(body, &ast.AssignStmt{Lhs: []ast.Expr{lhs, ok}, Tok: token.ASSIGN, Rhs: []ast.Expr{call("Recv2", ch)}})
	}
	_ = recv
	body = append(body, &ast.IfStmt{Cond: &ast.UnaryExpr{Op: token.NOT, X: ok}, Body: &ast.BlockStmt{List: []ast.Stmt{&ast.BranchStmt{Tok: token.BREAK}}}})
	body = append(body, r.Body.List...)
	loop := &ast.ForStmt{Body: &ast.BlockStmt{List: body}}
	return &ast.BlockStmt{List: []ast.Stmt{
		&ast.AssignStmt{Lhs: []ast.Expr{ch}, Tok: token.DEFINE, Rhs: []ast.Expr{r.X}},
		loop,
	}}
}

func (c *fileCtx) rewriteSelect(s *ast.SelectStmt) ast.Stmt {
	var pre []ast.Stmt
	var cases []ast.Expr
	var clauses []ast.Stmt
	hasDefault := false
	cs := c.fresh("cs")
	idx := 0
	for _, st := range s.Body.List {
		cc := st.(*ast.CommClause)
		if cc.Comm == nil {
			hasDefault = true
			clauses = append(clauses, &ast.CaseClause{List: nil, Body: cc.Body})
			continue
		}
		var body []ast.Stmt
		switch comm := cc.Comm.(type) {
		case *ast.SendStmt:
			chv, vv := c.fresh("c"), c.fresh("v")
			pre = append(pre, &ast.AssignStmt{Lhs: []ast.Expr{chv}, Tok: token.DEFINE, Rhs: []ast.Expr{comm.Chan}})
			// keep the static type of the value: go through an interface only inside simrt.S
			pre = append(pre, &ast.AssignStmt{Lhs: []ast.Expr{vv}, Tok: token.DEFINE, Rhs: []ast.Expr{call("Any", comm.Value)}})
			cases = append(cases, call("S", chv, vv))
		case *ast.ExprStmt: // case <-ch:
			chv := c.fresh("c")
			pre = append(pre, &ast.AssignStmt{Lhs: []ast.Expr{chv}, Tok: token.DEFINE, Rhs: []ast.Expr{comm.X.(*ast.UnaryExpr).X}})
			cases = append(cases, call("R", chv))
		case *ast.AssignStmt: // case v := <-ch / v, ok := <-ch / v = <-ch
			chv := c.fresh("c")
			pre = append(pre, &ast.AssignStmt{Lhs: []ast.Expr{chv}, Tok: token.DEFINE, Rhs: []ast.Expr{comm.Rhs[0].(*ast.UnaryExpr).X}})
			cases = append(cases, call("R", chv))
			slot := &ast.UnaryExpr{Op: token.AND, X: &ast.IndexExpr{X: cs, Index: &ast.BasicLit{Kind: token.INT, Value: strconv.Itoa(idx)}}}
			rhs := []ast.Expr{call("Val", chv, slot)}
			if len(comm.Lhs) == 2 {
				rhs = append(rhs, &ast.SelectorExpr{X: &ast.IndexExpr{X: cs, Index: &ast.BasicLit{Kind: token.INT, Value: strconv.Itoa(idx)}}, Sel: ast.NewIdent("Ok")})
			}
			body = append(body, &ast.AssignStmt{Lhs: comm.Lhs, Tok: comm.Tok, Rhs: rhs})
			// silence "declared and not used" for := when the body ignores the value
			if comm.Tok == token.DEFINE {
				for _, l := range comm.Lhs {
					if id, ok := l.(*ast.Ident); ok && id.Name != "_" {
						body = append(body, &ast.AssignStmt{Lhs: []ast.Expr{ast.NewIdent("_")}, Tok: token.ASSIGN, Rhs: []ast.Expr{ast.NewIdent(id.Name)}})
					}
				}
			}
		}
		body = append(body, cc.Body...)
		clauses = append(clauses, &ast.CaseClause{List: []ast.Expr{&ast.BasicLit{Kind: token.INT, Value: strconv.Itoa(idx)}}, Body: body})
		idx++
	}
	pre = append(pre, &ast.AssignStmt{Lhs: []ast.Expr{cs}, Tok: token.DEFINE, Rhs: []ast.Expr{
		&ast.CompositeLit{Type: &ast.ArrayType{Elt: sel("Case")}, Elts: cases}}})
	dflt := "false"
	if hasDefault {
		dflt = "true"
	}
	if !hasDefault {
		clauses = append(clauses, &ast.CaseClause{List: nil, Body: []ast.Stmt{&ast.ExprStmt{X: &ast.CallExpr{Fun: ast.NewIdent("panic"), Args: []ast.Expr{&ast.BasicLit{Kind: token.STRING, Value: `"simrt: bad select index"`}}}}}})
	}
	sw := &ast.SwitchStmt{Tag: call("Select", cs, ast.NewIdent(dflt)), Body: &ast.BlockStmt{List: clauses}}
	pre = append(pre, sw)
	return &ast.BlockStmt{List: pre}
}

func (c *fileCtx) insertP(b *ast.BlockStmt) {
	if b == nil {
		return
	}
	var out []ast.Stmt
	afterBefore := false
	for _, st := range b.List {
		switch st.(type) {
		case *ast.DeclStmt, *ast.LabeledStmt, *ast.EmptyStmt:
		default:
			// never between simrt.BeforeBlock() and the native blocking statement it announces: the task has given up
			// the baton there, and a preemption point executed without the baton would race with the running task
			if !isSimrtCall(st) && !afterBefore {
				out = append(out, callStmt("P"))
				c.changed = true
			}
		}
		afterBefore = isSimrtCallNamed(st, "BeforeBlock")
		out = append(out, st)
		ast.Inspect(st, func(n ast.Node) bool {
			switch y := n.(type) {
			case *ast.FuncLit:
				c.insertP(y.Body)
				return false
			case *ast.SwitchStmt:
				c.insertPClauses(y.Body)
				return false
			case *ast.TypeSwitchStmt:
				c.insertPClauses(y.Body)
				return false
			case *ast.SelectStmt:
				c.insertPClauses(y.Body)
				return false
			case *ast.BlockStmt:
				if y != b {
					c.insertP(y)
					return false
				}
			case *ast.CaseClause:
				nb := &ast.BlockStmt{List: y.Body}
				c.insertP(nb)
				y.Body = nb.List
				return false
			case *ast.CommClause:
				nb := &ast.BlockStmt{List: y.Body}
				c.insertP(nb)
				y.Body = nb.List
				return false
			}
			return true
		})
	}
	b.List = out
}

func (c *fileCtx) insertPClauses(b *ast.BlockStmt) {
	for _, cl := range b.List {
		switch y := cl.(type) {
		case *ast.CaseClause:
			nb := &ast.BlockStmt{List: y.Body}
			c.insertP(nb)
			y.Body = nb.List
		case *ast.CommClause:
			nb := &ast.BlockStmt{List: y.Body}
			c.insertP(nb)
			y.Body = nb.List
		}
	}
}

func isSimrtCallNamed(st ast.Stmt, name string) bool {
	es, ok := st.(*ast.ExprStmt)
	if !ok {
		return false
	}
	ce, ok := es.X.(*ast.CallExpr)
	if !ok {
		return false
	}
	s, ok := ce.Fun.(*ast.SelectorExpr)
	if !ok {
		return false
	}
	id, ok := s.X.(*ast.Ident)
	return ok && id.Name == "simrt" && s.Sel.Name == name
}

func isSimrtCall(st ast.Stmt) bool {
	es, ok := st.(*ast.ExprStmt)
	if !ok {
		return false
	}
	ce, ok := es.X.(*ast.CallExpr)
	if !ok {
		return false
	}
	s, ok := ce.Fun.(*ast.SelectorExpr)
	if !ok {
		return false
	}
	id, ok := s.X.(*ast.Ident)
	return ok && id.Name == "simrt"
}
