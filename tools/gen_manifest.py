#!/usr/bin/env python3
"""Single source of the per-property metadata: writes tools/props.json (used by check.py for
evidence text and budgets) and MANIFEST.json."""
import json
import os

V = os.path.dirname(os.path.dirname(os.path.abspath(__file__)))

REAL_FSM = ["channels (Channels, FSM table, caches, channel_state)", "go-statemachine (fsm, group, machine)", "go-statestore", "go-ds-versioning (versioned FSM, migrations runner)", "cbor-gen codecs of the internal channel state", "ipld-prime dag-cbor"]
STUB_FSM = ["datastore -> SimDisk (ordered map + atomic write log, crash = log prefix)", "ChannelEnvironment -> recording double", "scheduler/clock -> simrt baton scheduler inside testing/synctest"]
REAL_NET = ["impl (manager, receiver, restart, events)", "channels + go-statemachine + go-statestore + go-ds-versioning", "channelmonitor + bep/debounce", "channelsubscriptions, registry, transportoptions, tracing", "message/message1_1prime (ToNet/FromNet/ToIPLD/FromIPLD)", "network/libp2p_impl (retry, backoff, dispatch)", "transport/graphsync (Transport, dtChannel, extension)", "go-pubsub", "jpillora/backoff", "ipld-prime selector traversal"]
STUB_NET = ["libp2p host/streams -> SimHost/SimStream (bytes on a simulated wire, cuts, open failures)", "go-graphsync engine -> SimGraphsync (executable model of v0.18.0's hook contract)", "datastore -> SimDisk", "validators/subscribers/application -> SimApp scripts drawn from the tape", "OpenTelemetry -> global no-op tracer", "scheduler/clock -> simrt baton scheduler inside testing/synctest"]
ASSUME = ["datastore contract: atomic Put/Delete/batch Commit, durable on return (no torn values)", "computation takes zero simulated time; stalls are whole-task", "the four small dependencies are transformed with go 1.23 loop semantics (no closures in their for bodies)"]

P = {}


def prop(pid, **kw):
    P[pid] = kw


prop("C02", engine="fsmsim", level="exploration", technique="deterministic simulation (seeded schedules + crash/reopen) with snapshot-equality history oracle",
     rule="one evaluation = one seeded simulated run of the real channels FSM stack on SimDisk: 1-3 channels driven by a generated event history (role-consistent or arbitrary over all 28 API event kinds), optional clean/crash reopen, then every API event kind is applied to each terminal channel in the same process and after reopening; non-trivial = run whose channels announced > 4 events; distinct = distinct schedule hash (ordered (task id, wake reason) sequence)",
     probes=["terminal-followups", "nontrivial"], real=REAL_FSM, stubs=STUB_FSM, assumptions=ASSUME,
     text="Seeded search over event histories, schedules and reopen points; after a channel is announced terminal every follow-up kind is applied and the query result, the durable bytes of its key and the event stream must be unchanged. Sampling, not proof.",
     note="netsim part (messages, transport callbacks, API calls on a real manager) is added by the netsim strata; oracle compares all accessors except the experimental stage log")
prop("C03", engine="fsmsim", level="exploration", technique="deterministic simulation; history oracle over announced event stream (completion diamond, event-class orthogonality)",
     rule="one evaluation = one seeded simulated run (as C02) with role-consistent initiator/responder histories incl. both arrival orders of transport-finished / Complete / Complete-paused / final Complete interleaved with bookkeeping events; non-trivial = > 4 announced events; distinct = schedule hash",
     probes=["diamond-completed", "finalizing-released", "nontrivial"], real=REAL_FSM, stubs=STUB_FSM, assumptions=ASSUME,
     text="History check per channel: accepted initiator reaches Completing iff both FinishTransfer and ResponderCompletes were announced; Finalizing reports paused and is left only by ResumeResponder/ending events; bookkeeping events never move the status, lifecycle events never move counters/flags/vouchers. Event classes are taken from the property text, not from the transition table.",
     note="event classification is the oracle's trusted input")
prop("C06", engine="fsmsim", level="exploration", technique="deterministic simulation with crash injection at datastore write boundaries; prefix-consistency oracle against announced snapshots",
     rule="one evaluation = one seeded run with clean restarts and crashes cut at a tape-chosen write boundary of SimDisk's atomic write log (plus one stratum that reopens at EVERY write boundary of its run); each reopen compares every listed channel with the states that were ever current; non-trivial = a reopen landed strictly inside a channel's history; distinct = schedule hash",
     probes=["reopen-strictly-inside", "reopened-in-cleanup", "exhaustive-boundaries"], real=REAL_FSM, stubs=STUB_FSM, assumptions=ASSUME,
     text="At sampled (and in one stratum all) write boundaries the datastore prefix is reopened with a fresh Channels instance: listed set == created set, each state equals some earlier-current state, monotone in the boundary; query results are durable; channels reopened in a cleanup status finish cleanup on restart.",
     note="a state may become durable before it is announced, so the old life is run to quiescence before judging a crash point")
prop("C11", engine="fsmsim", level="exploration", technique="deterministic simulation; per-event pause-flag oracle",
     rule="one evaluation = one seeded run (as C02) whose histories interleave the four pause/resume events with every other event in every status for all four roles; non-trivial = > 4 announced events; distinct = schedule hash",
     probes=["nontrivial"], real=REAL_FSM, stubs=STUB_FSM, assumptions=ASSUME,
     text="Per announced event: Pause*/Resume* changes only its own party's flag; no other event changes a flag (except DataLimitExceeded = responder pause and the Finalizing view); BothPaused is the conjunction; SelfPaused is the local role's flag.",
     note="two-party agreement and transport/message effects are checked by the netsim strata")
prop("C17", engine="fsmsim", level="exploration", technique="deterministic simulation; three independent references (sent history, disk write sequence, subscriber agreement)",
     rule="one evaluation = one seeded run (as C02); the announced stream per channel is compared with the sequence of events sent (subsequence, multiplicity, must-announce set) and with the datastore (final durable state == last snapshot; every boundary state was announced); non-trivial = > 4 announced events; distinct = schedule hash",
     probes=["nontrivial", "exhaustive-boundaries"], real=REAL_FSM, stubs=STUB_FSM, assumptions=ASSUME,
     text="Announcements must be a subsequence of the sent events (no reordering, no duplicates), events applied before any ending event must be announced, rejected events are never announced, snapshots equal the durable state sequence.",
     note="manager-level subscribers (global/per-transfer, unsubscribe) are covered by the netsim strata")

prop("C07", engine="fsmsim", level="exploration", technique="deterministic simulation; sequential reference model + porcupine linearizability check of concurrent block reports",
     rule="one evaluation = one seeded run: a channel in a transferring status receives 10-60 block reports (fixed size/uniqueness per traversal position, replays after simulated transport restarts, clean process restarts between reports) checked against the reference totals after every flush, or 2-4 concurrent reporter tasks with tape-chosen preemption whose recorded call/return history is checked with porcupine; non-trivial = every run (>= 10 reports or >= 4 concurrent operations); distinct = schedule hash",
     probes=["replay-after-restart", "porcupine-ok", "same-position-concurrently", "nontrivial"], real=REAL_FSM, stubs=STUB_FSM, assumptions=ASSUME + ["positions are reported in increasing runs with restarts (as a transport does); a position keeps its size and uniqueness", "process restarts happen between reports after a flush (the property's quantifier)"],
     text="Byte totals must equal the sum of unique block sizes over distinct reported positions and index totals the highest position, after every flush and across restarts; concurrent histories must be linearizable w.r.t. the high-water-mark model (porcupine, <= 24 ops).",
     note="netsim strata add the totals real transfers produce")
prop("C08", engine="fsmsim", level="exploration", technique="deterministic simulation; reference (limit,total) model with boundary-biased limits; porcupine for concurrent reporters",
     rule="one evaluation = one seeded run as C07 with a data limit placed at/around a prefix sum (exactly, +1, -1, arbitrary), limit raises/lowers/lifts between reports and clean restarts; checks pause signal, DataLimitExceeded, ResponderPaused and persistence of limit and progress; non-trivial = every run; distinct = schedule hash",
     probes=["limit-crossed", "limit-hit-exactly", "limit-changed", "nontrivial"], real=REAL_FSM, stubs=STUB_FSM, assumptions=ASSUME,
     text="No report pauses below the limit or with limit 0; the report that first reaches the limit returns the pause signal, DataLimitExceeded is announced and the responder is marked paused; the rule re-applies after every limit change and after restarts. Manager-level resume/reject rules and 'no payload moves while paused' are netsim strata.",
     note="only the limited counter of the role (queued for pull responder, received for push responder) may pause")

NETRULE = "one evaluation = one seeded two-node run: real managers A (initiator) and B (responder) over SimHost/SimGraphsync/SimDisk transfer 1-2 generated DAGs (push/pull, default or per-channel stores, optional pre-seeded receiver) under a tape-drawn configuration of the stratum (application pause/resume, validator data limits + revalidation, finalisation, forced pause, vouchers, closes, restarts, connection cuts with heal and monitor- or application-driven restart); 5 simulated minutes of activity, then faults stop and 30 simulated minutes of settle; oracles run over the recorded histories; distinct = schedule hash; "
prop("C01", engine="netsim", level="exploration", technique="deterministic two-node simulation with fault injection (cuts, restarts, pauses, limits); end-state + conservation oracle",
     rule=NETRULE + "non-trivial = an accepted channel reached Completed on the initiator in a run with at least one pause/limit/finalisation/fault",
     probes=["accepted-completed", "nontrivial", "local-only-pull-completed"], real=REAL_NET, stubs=STUB_NET, assumptions=ASSUME,
     text="For every accepted channel the initiator reports Completed: the responder has the channel, sent an un-paused Complete, settles in Completed unless its own application ended it, a fresh selector walk over the receiver's store finds every block byte-identical, and (receiver store initially empty) Received == Queued == unique payload size; a fully local pull completes without a responder channel.",
     note="the graphsync engine is an executable model (calibrated against hook traces of the real engine); a violation whose trace depends on graphsync semantics is re-examined against the real stack before it is called a defect")
prop("C09", engine="netsim+fsmsim", level="exploration", technique="deterministic simulation with fault injection; history oracle over event stream, conn-manager, transport and wire logs; generic every-call-returns oracle",
     rule=NETRULE + "fsmsim strata add entries into the three cleanup statuses from every status; non-trivial = a close was checked or a channel reached a terminal status after a fault",
     probes=["close-checked", "terminal-reached:A", "terminal-reached:B"], real=REAL_NET, stubs=STUB_NET, assumptions=ASSUME,
     text="Every entry into Cancelling/Failing/Completing is followed by cleanup + unprotect before the terminal status, the matching terminal status is reached after settle (no further lifecycle input), transport mappings and per-channel stores are gone; close calls return (no call is still blocked at quiescence) within 2 simulated minutes, hand a cancel message of the role's kind to the network and end in Cancelled.",
     note="'promptly' is operationalised as: returned by the end of settle and within 2 simulated minutes (the send path's own retry budget)")
prop("C10", engine="netsim", level="exploration", technique="deterministic two-node simulation with cuts/restarts; relational before/after oracle over wire, validator and graphsync call logs",
     rule=NETRULE + "non-trivial = a restart request or restart-existing-channel request was sent",
     probes=["restart-request-sent", "restart-existing-sent", "second-gs-request"], real=REAL_NET, stubs=STUB_NET, assumptions=ASSUME,
     text="Restart requests repeat transfer id, direction, voucher and base CID; responders ask with restart-existing naming exactly that channel; accepted restarts are preceded by ValidateRestart; a channel's previous graphsync request is cancelled or finished before a new one is issued; no node ever lists more channels than were opened; identity and recorded progress never change across restarts.",
     note="the exact skip count (do-not-send-first-blocks == ReceivedCidsTotal) is checked where it is race-free: in the transport-level engine")
prop("C19", engine="netsim+all", level="exploration", technique="deterministic simulation; total-accessor + view-consistency oracle on every snapshot any engine sees; log append-only/exactly-once history oracle",
     rule=NETRULE + "every ChannelState handed out anywhere (subscriber callbacks, queries, validator callbacks, reopened stores) has all 31 accessors called with panics recovered per accessor; non-trivial = a voucher or voucher result was exchanged",
     probes=["voucher-sent", "nontrivial"], real=REAL_NET, stubs=STUB_NET, assumptions=ASSUME,
     text="No accessor panics; IsPull/ChannelID/OtherPeer/Both/SelfPaused/first voucher agree with each other and with creation; voucher and result logs only grow by appends; a voucher is recorded by the initiator iff its send succeeded, exactly once; the responder records each received voucher and each sent result exactly once; Last* equal the final entry or the empty value.",
     note="")

prop("C14", engine="monsim", level="exploration", technique="deterministic simulation of the real channel monitor on a simulated clock with scripted event timing and injected reconnect/restart failures and latencies; timed call-log oracle",
     rule="one evaluation = one seeded run of the real channelmonitor.Monitor (+ debounce) against a recording double of the manager API: random configuration (timeouts on/off, debounce, backoff, restart limit), 1-3 channels, 2-16 scripted events each (error bursts, data events, Accept, FinishTransfer, cleanup/terminal endings) with ms..10 s gaps, reconnect/restart calls that fail n times or persistently and take 0..3 s; 15 simulated minutes; non-trivial = every run (all have >= 2 events); distinct = schedule hash",
     probes=["trigger-during-attempt", "accept-timeout-fired", "complete-timeout-fired", "closed-with-error", "shutdown-seen", "several-attempts"], real=["channelmonitor (Monitor, monitoredChannel)", "bep/debounce"], stubs=["manager API (subscribe/restart/close/connect) -> recording double with scripted failures and latencies", "clock -> testing/synctest fake clock", "scheduler -> simrt"], assumptions=["events reach the monitor sequentially (the manager's notifier is one goroutine)", "computation takes zero simulated time: an event and a timer at the same instant may be seen in either order (ties are not judged)"],
     text="Over the timed call log: restart attempts of one channel never overlap; a restart requested during an attempt is followed by a later attempt; successful restarts <= debounced requests; attempts between data events <= MaxConsecutiveRestarts; persistent failure closes; at most one close-with-error; accept/complete timeouts close at exactly the deadline iff the awaited event did not arrive strictly before (never when 0); after a cleanup/terminal event nothing is restarted or closed, the subscription is gone and the id can be added again; nil config does nothing.",
     note="the restart back-off is not asserted (not in the statement)")

prop("C12", engine="wire", level="exploration", technique="seeded generation of constructor arguments + stream-fault injection (chunking, truncation at every offset, read errors, bit flips) against an independent reference encoder written from schema.ipldsch; wire monitor inside the two-node simulation",
     rule="one evaluation = 6 generated messages (all constructors; transfer ids over the full uint64 range incl. >= 2^63, non-UTF-8 peer ids, arbitrary IPLD vouchers): each is encoded (ToNet) and compared byte for byte with the reference encoder, decoded through a reader with tape-chosen chunking, round-tripped through ToIPLD/FromIPLD directly and through dag-cbor, re-encoded with reversed key order, truncated (6 sampled offsets; one stratum: every offset), hit by a read error at those offsets, 8-64 single-bit flips and a garbage suffix; plus 10 arbitrary byte strings / IPLD values and the null-body maps per run. distinct = hash of the generated encodings; non-trivial = every run. NOTE: constructor-argument generation has no schedule in it - the simulation-specific parts are the stream faults and the netsim wire monitor (every message that crosses the simulated wire in any netsim run is compared field by field at the receiver)",
     probes=["roundtrips", "stream-faults", "bit-flips", "arbitrary-inputs", "exhaustive-truncation"], real=["message/message1_1prime (constructors, ToNet/FromNet, ToIPLD/FromIPLD, bindnode schema)", "message/types", "ipld-prime dag-cbor + bindnode"], stubs=["stream -> chunked reader with injected truncation / read errors / bit flips", "reference encoder: harness code written from schema.ipldsch (independent of bindnode)"], assumptions=["DAG-CBOR canonical form: map keys sorted by length then bytewise"],
     text="Every constructed message keeps all observable fields through both encodings and classifies as exactly one kind; ToNet bytes equal the schema's DAG-CBOR map byte for byte; any key order decodes to the same message; Accepted == (err==nil && result.Accepted); truncated / corrupted / arbitrary input yields an error or the original message, never a panic and never a message without a body.",
     note="mostly input generation (said plainly); level exploration")

prop("C15", engine="netunit", level="exploration", technique="deterministic simulation of the real libp2p network layer on a simulated host: scripted stream-open outcomes (ok / fail / block until timeout), injected write failures, context cancellation at a tape-chosen instant, raw inbound byte streams with short reads",
     rule="one evaluation = one seeded run of either (send) SendMessage of a generated message under random retry parameters (1-6 attempts, back-off range, open timeout), a random open script, an optional write failure at the k-th write and an optional cancellation instant, or (inbound) a raw stream of 0-3 well-formed messages of all kinds optionally followed/interrupted by a malformed item (junk, wrong-shape CBOR, null bodies, truncated message), written in tape-chosen pieces and read with tape-chosen chunking; non-trivial = every run; distinct = schedule hash",
     probes=["retried", "sent-ok", "cancelled-in-flight", "write-failed", "malformed-stream", "several-messages-on-one-stream"], real=["network/libp2p_impl.go (openStream retry/back-off, SendMessage, handleNewStream dispatch)", "jpillora/backoff", "message codecs"], stubs=["libp2p host/stream -> SimHost/SimStream", "Receiver -> recording double", "clock -> fake clock (back-off and open timeouts cost nothing)"], assumptions=["back-off jitter comes from math/rand seeded from the tape (godebug randseednop=0)"],
     text="Stream-open attempts <= configured; SendMessage returns nil iff the last attempt opened a stream and no write failed, and then the receiver's handler for that kind saw the message exactly once from the right peer; never delivered on error; returns at the very instant of cancellation; never gives up early; a failed write resets the stream and is reported. Inbound: every well-formed message before a malformed part is dispatched once, in order, to the right handler with the connection's remote peer; a malformed stream is reset and reported exactly once; nothing is dispatched for the malformed part.",
     note="")

prop("C13", engine="migsim", level="exploration", technique="deterministic simulation of manager start-up on a version-2 datastore (every datastore operation a scheduling point) with operations racing the migration; independently encoded v2 records; byte-equality oracle for repeated starts",
     rule="one evaluation = one seeded run: 0-8 version-2 channel records (every status incl. the three deprecated paused ones, all four roles, uint64-range totals, arbitrary IPLD vouchers/results, stage logs or none) are written by an encoder in the harness (CBOR map form of the v2 struct, independent of the repository's migrations package); a real manager is started on SimDisk with three ready listeners registered before Start and 2-6 API operations issued while the migration runs; then 1-2 further starts on the migrated store and NewVoucher events on every non-terminal migrated channel with a durable-state probe; non-trivial = at least one record; distinct = schedule hash",
     probes=["migrated-channel-checked", "deprecated-status-migrated", "op-before-ready", "second-start", "migrated-channel-accepts-events"], real=["channels/internal/migrations", "go-ds-versioning (runner, migrate, versioned fsm)", "channels, go-statemachine, go-statestore", "impl.Start / OnReady / API gating", "cbor-gen codecs (v2 and v3 records)"], stubs=["datastore -> SimDisk (yielding on every operation)", "network/transport -> SimHost/SimGraphsync (idle)"], assumptions=ASSUME + ["'migration finished' is observed as the write of the version key (the runner's last write)", "crash during a migration is outside the property's quantifier (observed, not asserted)"],
     text="After start every accessor (peers, ids, base CID, selector, totals, indexes, message, vouchers, results, limit, finalisation flag, stage log) equals the stored value; deprecated paused statuses become Ongoing + flags; no /2 key survives, version key is 3; operations that complete before the version key is written are refused; each pre-registered ready listener fires exactly once with nil; further starts change no byte under /3 and the version key; migrated non-terminal channels accept and persist events.",
     note="channels an early operation targeted are exempt from the field comparison (the operation may legitimately act once the store is ready)")

prop("C16", engine="tpsim", level="exploration", technique="deterministic simulation of two real graphsync Transports over the SimGraphsync model with scripted recording EventsHandlers; routing oracle by block ownership, request ids and hook-invocation intervals",
     rule="one evaluation = one seeded run: 1-3 channels (push and pull, distinct DAGs with duplicate links, optional per-channel stores) between two real Transports without managers; per channel a driver task opens the channel and issues 0-6 of: pause, resume (plain or carrying a distinguishable message), restart with the recorded received-count, close, cleanup, and foreign graphsync requests from a stranger endpoint (no data-transfer extension / malformed extension / well-formed request for an unknown transfer); handlers answer from a script (pause on request, pause at the k-th queued / received block); 10 simulated minutes; non-trivial = every run; distinct = schedule hash",
     probes=["pause-resume-routed", "completion-reported", "foreign-graphsync-request", "some-blocks-not-on-wire", "restart-skip-checked", "second-gs-request", "resume-message-delivered"], real=["transport/graphsync (Transport, dtChannel, requestIDToChannelIDMap)", "transport/graphsync/extension", "message codecs"], stubs=["graphsync engine -> SimGraphsync model (hooks, listeners, pause/unpause/cancel semantics of v0.18.0)", "EventsHandler -> scripted recording double"], assumptions=["a callback belongs to the hook invocation that is running on its task; 'after cleanup' is judged by when that invocation began"],
     text="Every handler call names a known channel built from the authenticated peers; block callbacks name the channel whose DAG holds the block and fire on the right side only; nothing is reported for foreign requests or after a cleanup; queued/sent callbacks never exceed the blocks actually put on the wire; pause/unpause reach the channel's current request id; OnChannelCompleted fires at most once per completed response/request with an error iff it did not complete in full, never for cancellations; the per-channel store is registered exactly from UseStore to cleanup. Also serves C10: exact do-not-send-first-blocks count, previous request cancelled before the next, queued resume message delivered at most once.",
     note="")

prop("C04", engine="netsim", level="exploration", technique="deterministic two-node simulation with scripted validator outcomes, unregistered voucher types, hand-built requests, restarts after cuts and process crashes; log-relation oracle between validator calls, replies, channel creation and transport calls",
     rule=NETRULE + "the validator script of each transfer is drawn from {accept, reject (with/without voucher result), error} x ForcePause x DataLimit x RequiresFinalization, the voucher type may be unregistered on the responder, new requests without voucher / without selector are hand-built and sent through the initiator's real network layer, restart validation may reject or fail, and the responder's application rejects some revalidations; non-trivial = a not-accepted request or an accepted reply was checked",
     probes=["accepted-reply-checked", "not-accepted-request:validator rejected", "not-accepted-request:validator returned an error", "not-accepted-request:voucher type not registered", "not-accepted-request:request without voucher", "not-accepted-request:request without selector"], real=REAL_NET, stubs=STUB_NET, assumptions=ASSUME,
     text="An Accepted new/restart reply exists only after an accepting call of the validator registered for exactly that voucher type; it carries the validator's voucher result and pause decision; the stored channel shows limit and finalisation flag by the time data moves; a request no validator accepted creates no channel, opens no graphsync request and is answered not-accepted (with the rejection's voucher result); no library panic anywhere (generic oracle; D4/D9 were found this way).",
     note="rejected revalidation / restart => Failed + transport closed is covered by the C08/C10 strata and the close oracle of C09")

prop("C05", engine="netsim", level="exploration", technique="deterministic two-node simulation followed by an adversarial phase (stranger peer, role-confused and mutated messages through raw senders on both carriers); non-interference oracle over datastore bytes, event, wire, transport and validator logs",
     rule=NETRULE + "then, with the channels quiescent (mostly held open by limits/finalisation), 4-12 adversarial messages are injected, each followed by a drain: from a third peer S (own host and graphsync endpoint) and from the legitimate peers' raw endpoints: every message kind with colliding and fresh transfer ids over libp2p and as graphsync request/response extensions, requests on channels the sender did not initiate, responses on channels it initiated, restart requests with one mutated field (base CID, voucher type, voucher, selector kept), restart-existing requests naming foreign / own / terminated channels, and local wrong-role API calls; non-trivial = at least one adversarial message reached its victim",
     probes=["adv-stranger", "adv-role-confused", "adv-valid-restart", "adv-mutated-restart", "adv-restart-existing", "adv-local-role", "nontrivial"], real=REAL_NET, stubs=STUB_NET + ["adversary -> raw senders (a second graphsync endpoint with the same identity / direct stream writes)"], assumptions=ASSUME,
     text="After each adversarial message that must be ignored: the victim's durable bytes for every channel, its event stream, its transport call log, its graphsync call log and its validator log are unchanged (apart from the refusal it may send back); well-formed restart requests from the initiator of a non-terminated channel are honoured, mutated ones and ones for terminated channels are refused; restart-existing is honoured only from the counterparty of a channel the receiver initiated; SendVoucher works only on the initiator, SendVoucherResult / UpdateValidationStatus only on the responder.",
     note="graphsync-carried strangers use RequestRaw so that the node's own outgoing hooks do not see the adversary's request")
prop("C18", engine="netsim", level="exploration", technique="deterministic simulation: concurrent opens under dense statement-level preemption, successive manager lifetimes on one datastore with tape-chosen clock gaps (including a clock that stands still), duplicate new-requests injected at tape-chosen points of the original channel's life",
     rule="one evaluation = one seeded run of either (ids) 1-3 manager lifetimes on the same datastore, each issuing 2-6 concurrent OpenPush/OpenPull calls with 50-450 preemption points at gaps of <= 6..200 statements, separated by a clean stop or crash and a clock gap from {0, 1ns, 1us, 1ms, 1s, 1h} - or no gap at all and no simulated time during the opens ('tight'), so that the next manager collides with existing ids; or (duplicates) a two-node transfer run (see C01) in whose adversarial phase the initiator's raw endpoint re-sends the original new-request (libp2p for push, graphsync for pull) at a tape-chosen point; non-trivial = ids of >= 2 successful opens compared, or a duplicate reached the responder",
     probes=["ids-checked", "ids-across-lifetimes", "open-refused-because-id-exists", "adv-duplicate-new-request", "nontrivial"], real=REAL_NET, stubs=STUB_NET, assumptions=ASSUME + ["a later manager's ids are required to exceed an earlier manager's only when the clock moved on (runs where it stands still check the refusal of colliding ids instead)"],
     text="All successfully opened channels of a node have distinct transfer ids over all its manager lifetimes; an open that began after another returned has a larger id; every opened channel is listed; channels that existed before later opens keep their creation data, vouchers and progress; an open whose id collides with a stored channel fails and leaves that channel as it was; a duplicate new-request is refused and leaves datastore bytes, event stream, transport and graphsync logs of the existing channel unchanged (D6 was found and fixed this way).",
     note="")
prop("C20", engine="netsim", level="exploration", technique="deterministic simulation with statement-level preemption: every library mutex, RWMutex, Once, WaitGroup, channel operation and goroutine start is a scheduling point owned by the simulator; wait-for-graph oracle at quiescence (every API call and every transport / network callback returned; no task parked on a library lock; Manager.Stop with active transfers returns and leaves nothing behind a lock); panics",
     rule=NETRULE + "C20 strata mix all application operations concurrently (opens, closes, pauses, resumes, restarts, vouchers, validation updates from subscriber callbacks) and, in the stop stratum, call Manager.Stop on one node at a tape-chosen scheduling step or instant while transfers are active, half of the time followed by a new manager on the same datastore; non-trivial = every run",
     probes=["nontrivial"], real=REAL_NET, stubs=STUB_NET, assumptions=ASSUME + ["data races proper (unsynchronised memory access) are outside a baton scheduler's reach: only their deadlock/lost-update consequences at statement granularity are; see DESIGN for the -race secondary"],
     text="At quiescence after the settle phase every tracked API call and every callback the environment delivered (stream handler, graphsync hooks and listeners) has returned - otherwise the wait-for chain is followed through lock holders, state-machine waits and errgroup children to its root, which names the violation; Manager.Stop returns within two simulated minutes and one minute later no task of that node waits for a library lock; no library panic.",
     note="deadlock freedom and call completion are decided; data-race freedom in the Go memory-model sense is not decidable by this technique (said in DESIGN)")

ORDER = ["C%02d" % i for i in range(1, 21)]
PENDING = {pid: "check under construction in this session (engine not yet registered); not claimed until its quick command runs clean" for pid in ORDER if pid not in P}


def main():
    props = {}
    for pid, kw in P.items():
        props[pid] = {k: kw[k] for k in ("rule", "probes", "real", "stubs", "assumptions", "level") if k in kw}
        if "budget" in kw:
            props[pid]["budget"] = kw["budget"]
    with open(os.path.join(V, "tools", "props.json"), "w") as fh:
        json.dump(props, fh, indent=1, sort_keys=True)
    checks = []
    for pid in ORDER:
        if pid not in P:
            continue
        kw = P[pid]
        checks.append({
            "property_id": pid,
            "quick_cmd": "bin/check %s quick" % pid,
            "thorough_cmd": "bin/check %s thorough" % pid,
            "evidence_file": "/verif/evidence/%s.json" % pid,
            "replay_cmd_template": "bin/check %s quick --replay {path}" % pid,
            "engine": kw["engine"],
            "level_claimed": {"category": kw["level"], "text": kw["text"], "design_ref": "DESIGN.md section 5 (%s)" % pid},
            "level_note": kw["note"] + "; trusted base: simrt scheduler, xform source transformation (transparency-tested), SimDisk/recording doubles, the oracle code",
            "technique": kw["technique"],
        })
    man = {
        "version": 1,
        "setup_cmd": "bash tools/setup.sh",
        "hooks": {
            "guard": "none - check-time source transformation (tools/mkwork.sh + xform) of a scratch copy of /repo's working tree; /repo carries no instrumentation",
            "enable": "bin/check copies /repo's working tree to a temp dir, rewrites sync/go/select/chan/map-range through verif/simrt and builds the simulator test binary from that copy",
            "baseline_off_cmd": "for m in $(cat /w/out/gomods.txt); do MF=$(cd /repo/$m && . /w/out/goenv.sh && gomodflag); (cd /repo/$m && go test $MF -json -vet=off -count=1 -timeout 25m ./...); done",
            "source_commits": [],
            "add_only": True,
        },
        "engines": [
            {"name": "fsmsim", "path": "sim/fsmsim.go", "serves_properties": ["C02", "C03", "C06", "C07", "C08", "C09", "C11", "C17", "C19"], "kind_free_text": "real channels FSM stack on SimDisk under the simrt baton scheduler"},
            {"name": "monsim", "path": "sim/monsim.go", "serves_properties": ["C14"], "kind_free_text": "real channel monitor against a recording manager double on the fake clock"},
            {"name": "wire", "path": "sim/wire.go", "serves_properties": ["C12"], "kind_free_text": "message codecs under generated inputs and stream faults, reference encoder from the schema"},
            {"name": "netunit", "path": "sim/netunit.go", "serves_properties": ["C15"], "kind_free_text": "real network layer on SimHost with scripted faults"},
            {"name": "migsim", "path": "sim/migsim.go", "serves_properties": ["C13"], "kind_free_text": "manager start-up on independently encoded version-2 stores"},
            {"name": "tpsim", "path": "sim/tpsim.go", "serves_properties": ["C16", "C10"], "kind_free_text": "two real graphsync transports with scripted handlers over the graphsync model"},
            {"name": "netsim", "path": "sim/netscen.go", "serves_properties": ["C01", "C02", "C04", "C09", "C10", "C11", "C19", "C20"], "kind_free_text": "two real managers over SimHost/SimGraphsync/SimDisk under the simrt baton scheduler, with fault injection"},
        ],
        "checks": checks,
        "not_applicable": [{"property_id": k, "reason": v} for k, v in PENDING.items()],
        "notes": "All checks: deterministic simulation with fault injection (seeded schedules, crash points, faults from one choice tape; replay files reproduce bit for bit). fix: commits in /repo are listed in known_findings.json.",
    }
    with open(os.path.join(V, "MANIFEST.json"), "w") as fh:
        json.dump(man, fh, indent=1)


if __name__ == "__main__":
    main()
