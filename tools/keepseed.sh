#!/bin/bash
# keepseed.sh <name> <property> <pkgdir> <run-regex> <caught-by: e.g. "C07:not-linearizable"> <needs (free text)>
# stores /verif/seeded/<name>/{patch.diff,demo_test.go,README.md,meta.json} after confirm_mut.sh succeeded
N=$1; PROP=$2; PKG=$3; RX=$4; CAUGHT=$5; NEEDS=$6
D=/verif/seeded/$N; mkdir -p $D
cp ${MUTDIR:-/tmp/mut}/$N.diff $D/patch.diff; cp ${MUTDIR:-/tmp/mut}/${N}_demo_test.go $D/demo_test.go; cp ${MUTDIR:-/tmp/mut}/$N.md $D/README.md 2>/dev/null
CONF=$(/verif/tools/confirm_mut.sh $N $D/patch.diff $D/demo_test.go $PKG "$RX" | tail -1)
python3 - "$N" "$PROP" "$PKG" "$RX" "$CAUGHT" "$NEEDS" "$CONF" <<'PY'
import sys,json
n,prop,pkg,rx,caught,needs,conf=sys.argv[1:8]
meta={"id":n,"breaks_property":prop,"needs_to_manifest":needs,"demo":{"place_as":pkg+"/zz_mutdemo_test.go","run":"go test -vet=off -count=1 -run '%s' ./%s/"%(rx,pkg)},
 "confirmed":json.loads(conf),"what_i_ran":["tools/confirm_mut.sh (scratch worktree: build, full suite with patch, demo with patch, demo without patch)","tools/mut.sh patch.diff %s (apply to /repo, quick check, revert)"%prop],
 "caught_by":caught,"source":"independent sub-agent given only the property text"}
json.dump(meta,open('/verif/seeded/%s/meta.json'%n,'w'),indent=1)
print(json.dumps(meta["confirmed"]))
PY
