package sim

// Core of the harness: run context, violations, generic oracles (panic, stuck call), the
// per-run executor (one synctest bubble + simrt.Run per run) and result bookkeeping.

import (
	datatransfer "github.com/filecoin-project/go-data-transfer/v2"
	"os"
	"fmt"
	mrand "math/rand"
	"regexp"
	"sort"
	"strings"
	"testing"
	"testing/synctest"
	"time"

	"verif/simrt"
)

// Violation is one oracle failure. Sig is stable across runs/seeds/work dirs: it identifies the
// *class* (oracle + site + distinguishing input) and is what minimisation and known-findings match on.
type Violation struct {
	Prop   string `json:"property"`
	Oracle string `json:"oracle"`
	Sig    string `json:"signature"`
	Detail string `json:"detail"`
}

// RunCtx is handed to a scenario; it owns the world of one run.
type RunCtx struct {
	Prop    string
	Stratum string
	W       *World
	S       *simrt.Sim
	viol    []Violation
	Probes  map[string]int
	Faults  map[string]int
	Sample  map[string]any
	// Calls tracks application/API calls issued as named tasks; all must have returned after settle.
	Calls []*Call
	// Callbacks tracks invocations of library code by the simulated environment (message handlers, graphsync
	// hooks): each must return.
	Callbacks []*Callback
	// HarnessErr is set when the harness itself misbehaved (never reported as a violation).
	HarnessErr string
	// NoStuckCheck disables the generic "every call returned" oracle (scenarios that end early).
	NoStuckCheck bool
	// PanicPropOverride, when set, maps every library panic of this run to the given property
	PanicPropOverride string
}

type Callback struct {
	Name string
	Node string
	Task *simrt.Task
	Step int
	Done bool
	// Dead: the process it ran in crashed meanwhile
	Dead func() bool
}

// Callback runs f (an entry into library code made by the simulated environment) and records whether it returned.
func (r *RunCtx) Callback(node, name string, f func()) {
	cb := &Callback{Name: name, Node: node, Task: r.S.CurrentTask(), Step: r.S.Steps}
	r.Callbacks = append(r.Callbacks, cb)
	f()
	cb.Done = true
}

type Call struct {
	Name string
	Node string
	Task *simrt.Task
	// filled by OpE
	Err      error
	Returned bool
	T0, T1   time.Time // simulated clock at call and return
	S0, S1   int       // scheduling step at call and return
	ChID     uint64
	// AllowBlocked: call is allowed to be still blocked at end (e.g. deliberately parked seam)
	AllowBlocked bool
}

func (r *RunCtx) Fail(prop, oracle, sig, detail string) {
	for _, v := range r.viol {
		if v.Prop == prop && v.Sig == oracle+"|"+sig {
			return
		}
	}
	r.viol = append(r.viol, Violation{Prop: prop, Oracle: oracle, Sig: oracle + "|" + sig, Detail: detail})
	if r.W != nil {
		r.W.Logf("ORACLE-FAIL %s %s|%s: %s", prop, oracle, sig, detail)
	}
}
func (r *RunCtx) Failf(prop, oracle, sig, f string, a ...any) {
	r.Fail(prop, oracle, sig, fmt.Sprintf(f, a...))
}
func (r *RunCtx) Probe(name string) { r.Probes[name]++ }
func (r *RunCtx) Fault(kind string) {
	r.Faults[kind]++
	if r.S != nil {
		r.S.Mix("fault:" + kind)
	}
}
func (r *RunCtx) Intn(n int) int { return r.S.Intn(n) }
func (r *RunCtx) Chance(num, den int) bool { return r.S.Intn(den) < num }

// Op runs f as a tracked application call on its own task.
func (r *RunCtx) Op(node, name string, f func()) *Call {
	c := &Call{Name: name, Node: node}
	c.Task = simrt.GoNamed(name, node, f)
	r.Calls = append(r.Calls, c)
	return c
}

// OpE runs f as a tracked application call and records its result and simulated duration.
func (r *RunCtx) OpE(node, name string, f func() error) *Call {
	c := &Call{Name: name, Node: node}
	c.Task = simrt.GoNamed(name, node, func() {
		c.T0, c.S0 = time.Now(), r.S.Steps
		c.Err = f()
		c.T1, c.S1 = time.Now(), r.S.Steps
		c.Returned = true
	})
	r.Calls = append(r.Calls, c)
	return c
}

// WaitQuiet parks the caller until nothing else is runnable (no simulated time passes beyond 1ns).
func WaitQuiet() { simrt.Sleep(time.Nanosecond) }

// ---------------------------------------------------------------- strata registry

type Stratum struct {
	Name   string
	Weight int
	Fn     func(r *RunCtx)
	// MaxSteps / Horizon override the defaults when non-zero
	MaxSteps int
	Horizon  time.Duration
}

var registry = map[string][]Stratum{}

func Register(prop string, s ...Stratum) { registry[prop] = append(registry[prop], s...) }

func pickStratum(prop string, runIdx uint64) (Stratum, int) {
	ss := registry[prop]
	tot := 0
	for _, s := range ss {
		w := s.Weight
		if w <= 0 {
			w = 1
		}
		tot += w
	}
	z := (runIdx + 0x9E3779B97F4A7C15) * 0xBF58476D1CE4E5B9
	z = (z ^ (z >> 29)) * 0x94D049BB133111EB
	k := int((z ^ (z >> 32)) % uint64(tot))
	for i, s := range ss {
		w := s.Weight
		if w <= 0 {
			w = 1
		}
		if k < w {
			return s, i
		}
		k -= w
	}
	return ss[0], 0
}

// ---------------------------------------------------------------- run result

type RunResult struct {
	Prop       string
	Stratum    string
	StratumIdx int
	Viol       []Violation
	Probes     map[string]int
	Faults     map[string]int
	Sample     map[string]any
	Steps      int
	SimTime    time.Duration
	SchedHash  uint64
	Tape       []uint32
	Log        []string
	Trace      []string
	HarnessErr string
	StepsOut   bool
}

var panicValNorm = regexp.MustCompile(`0x[0-9a-f]+|\[[-0-9]+\]|[0-9]{3,}`)

// classifyPanic returns (isLibrary, topLibraryFrame). Stack is debug.Stack() taken in the deferred recover.
func classifyPanic(stack string) (lib bool, frame string, firstIsHarness bool) {
	lines := strings.Split(stack, "\n")
	// find the line after "panic(" frame
	start := 0
	for i, l := range lines {
		if strings.HasPrefix(l, "panic(") {
			start = i + 2
		}
	}
	first := true
	for i := start; i < len(lines)-1; i += 2 {
		fn := lines[i]
		if strings.HasPrefix(fn, "runtime.") || strings.HasPrefix(fn, "runtime/") {
			continue
		}
		isHarness := strings.HasPrefix(fn, "verif/sim.") || strings.HasPrefix(fn, "verif/sim/")
		isSimrt := strings.HasPrefix(fn, "verif/simrt.")
		if first {
			first = false
			if isHarness {
				return false, trimFrame(fn), true
			}
		}
		if isHarness || isSimrt {
			continue
		}
		if strings.Contains(fn, "go-data-transfer/v2") || strings.Contains(fn, "go-statemachine") || strings.Contains(fn, "go-ds-versioning") || strings.Contains(fn, "go-pubsub") || strings.Contains(fn, "bep/debounce") || strings.Contains(fn, "go-statestore") {
			return true, trimFrame(fn), false
		}
	}
	return false, "", false
}

func trimFrame(fn string) string {
	if i := strings.LastIndex(fn, "("); i > 0 && strings.HasSuffix(fn, ")") {
		// strip argument list "(0x..., ...)" but keep receiver "(*manager)"
		if j := strings.LastIndex(fn, ")("); j > 0 {
			fn = fn[:j+1]
		} else if !strings.Contains(fn[i:], "*") {
			fn = fn[:i]
		}
	}
	fn = strings.TrimPrefix(fn, "github.com/filecoin-project/go-data-transfer/v2/")
	fn = strings.TrimPrefix(fn, "github.com/filecoin-project/")
	fn = strings.TrimPrefix(fn, "github.com/")
	return fn
}

// panicProp maps a library panic to the property that names it.
func panicProp(stack string) string {
	// classified by where the panic happened (the innermost go-data-transfer frame), not by who called
	inner := firstLibFrameOf(stack)
	if i := strings.Index(inner, "<-"); i > 0 {
		inner = inner[:i]
	}
	switch {
	case strings.HasPrefix(inner, "channels.channelState."):
		return "C19"
	case strings.HasPrefix(inner, "message/message1_1prime."):
		return "C12"
	case strings.HasPrefix(inner, "network."):
		return "C15"
	case strings.Contains(stack, "UpdateValidationStatus") || strings.Contains(stack, "validateRestart") ||
		strings.Contains(stack, "receiveRestartRequest") || strings.Contains(stack, "receiveNewRequest") || strings.Contains(stack, "acceptRequest"):
		return "C04"
	}
	return "C20"
}

// rootFrame names the place where the root of a wait-for chain is stuck: the innermost go-data-transfer frame,
// qualified by the entry point when that frame is a generic accessor of the channels package.
func rootFrame(stack string) string {
	f := firstLibFrameOf(stack)
	if i := strings.Index(f, "<-"); i > 0 {
		inner := f[:i]
		if strings.HasPrefix(inner, "channels.") {
			return f
		}
		return inner
	}
	return f
}

// libChain returns the innermost n go-data-transfer frames of a stack, innermost first.
func libChain(stack string, n int) string {
	lines := strings.Split(stack, "\n")
	var out []string
	for i := 1; i < len(lines)-1 && len(out) < n; i += 2 {
		if strings.Contains(lines[i], "go-data-transfer/v2") {
			out = append(out, trimFrame(lines[i]))
		}
	}
	return strings.Join(out, "<-")
}

func firstLibFrameOf(stack string) string {
	// for a blocked goroutine's stack: the innermost frame in go-data-transfer itself (falling back to the
	// innermost frame in one of its small dependencies), plus the outermost go-data-transfer frame when it differs
	// (the entry point: which API call / hook the goroutine is in)
	lines := strings.Split(stack, "\n")
	inner, outer, dep := "", "", ""
	for i := 1; i < len(lines)-1; i += 2 {
		fn := lines[i]
		if strings.Contains(fn, "go-data-transfer/v2") {
			if inner == "" {
				inner = trimFrame(fn)
			}
			outer = trimFrame(fn)
		} else if dep == "" && (strings.Contains(fn, "go-statemachine") || strings.Contains(fn, "go-pubsub") || strings.Contains(fn, "go-ds-versioning")) {
			dep = trimFrame(fn)
		}
	}
	if inner == "" {
		return dep
	}
	if outer != inner {
		return inner + "<-" + outer
	}
	return inner
}

// ---------------------------------------------------------------- executing one run

const (
	defaultMaxSteps = 400_000
	defaultHorizon  = 3 * time.Hour
)

// ExecRun executes one simulated run of prop's stratum with the given tape.
func ExecRun(t *testing.T, prop string, st Stratum, stIdx int, tape *simrt.Tape, trace bool) (res *RunResult) {
	res = &RunResult{Prop: prop, Stratum: st.Name, StratumIdx: stIdx}
	r := &RunCtx{Prop: prop, Stratum: st.Name, Probes: map[string]int{}, Faults: map[string]int{}, Sample: map[string]any{}}
	maxSteps, horizon := st.MaxSteps, st.Horizon
	if maxSteps == 0 {
		maxSteps = defaultMaxSteps
	}
	if horizon == 0 {
		horizon = defaultHorizon
	}
	var s *simrt.Sim
	func() {
		defer func() {
			if p := recover(); p != nil {
				msg := fmt.Sprint(p)
				if strings.Contains(msg, "blocked goroutines remain") || strings.Contains(msg, "deadlock: main bubble goroutine has exited") {
					return
				}
				res.HarnessErr = "panic outside tasks: " + msg
			}
		}()
		synctest.Test(t, func(t *testing.T) {
			t0 := time.Now()
			s = simrt.Run(tape, maxSteps, horizon, func(s *simrt.Sim) {
				s.TraceOn = trace
				if trace && os.Getenv("VERIF_TRACE_TAPE") != "" {
					simrt.TapeTrace = func(l string) { s.Trace = append(s.Trace, l) }
				}
				r.S = s
				r.W = NewWorld(s)
				r.W.R = r
				for k := range HookBegin {
					delete(HookBegin, k)
				}
				for k := range StoppedLabels {
					delete(StoppedLabels, k)
				}
				mrand.Seed(int64(tape.Intn(1 << 30))) // jpillora/backoff jitter uses the global source
				st.Fn(r)
			})
			res.SimTime = time.Since(t0)
		})
	}()
	if s == nil {
		if res.HarnessErr == "" {
			res.HarnessErr = "run did not start"
		}
		return res
	}
	res.Steps = s.Steps
	res.StepsOut = s.Steps >= maxSteps
	if os.Getenv("VERIF_DUMP_BLOCKED") != "" {
		bt := s.BlockedTasks()
		for id, st := range s.StacksOf(bt) {
			fmt.Fprintf(os.Stderr, "=== blocked task %s\n%s\n", id, shortStack(st))
		}
	}
	res.SchedHash = s.ScheduleHash()
	res.Tape = tape.Log
	if r.W != nil {
		res.Log = r.W.Log
	}
	res.Trace = s.Trace
	// generic oracle: panics
	for _, p := range s.Panics {
		lib, frame, harnessFirst := classifyPanic(p.Stack)
		val := panicValNorm.ReplaceAllString(p.Value, "#")
		if harnessFirst || !lib {
			res.HarnessErr = fmt.Sprintf("panic in harness code (task %s %s): %s\n%s", p.Task, p.Name, p.Value, p.Stack)
			continue
		}
		pp := panicProp(p.Stack)
		if !strings.HasPrefix(st.Name, "net-") && prop != "" && prop != "replay" {
			// single-property engines (wire, network unit, migration, monitor, transport, fsm): the workload is the
			// property's own, so is the crash
			pp = prop
		}
		if pp == "C20" && prop != "" && prop != "replay" {
			// a library panic that no specific property claims belongs to the property whose workload provoked it
			pp = prop
		}
		if r.PanicPropOverride != "" {
			pp = r.PanicPropOverride
		}
		r.Fail(pp, "panic", frame+"|"+val, fmt.Sprintf("library panic in task %s (%s): %s\n%s", p.Task, p.Name, p.Value, shortStack(p.Stack)))
	}
	// generic oracle: every tracked call returned (only meaningful if the run was not cut short)
	if !r.NoStuckCheck && !res.StepsOut && len(s.Panics) == 0 && res.HarnessErr == "" {
		var stuck []*simrt.Task
		for _, c := range r.Calls {
			if c.Task != nil && !c.Task.Done() && !c.AllowBlocked {
				stuck = append(stuck, c.Task)
			}
		}
		if len(stuck) > 0 {
			stacks := s.StacksOf(stuck)
			for _, c := range r.Calls {
				if c.Task == nil || c.Task.Done() || c.AllowBlocked {
					continue
				}
				stk := stacks[c.Task.ID]
				frame := firstLibFrameOf(stk)
				victimOf, rootStk := stuckRoot(s, c.Task, stk)
				stk += rootStk
				if strings.Contains(strings.ToLower(c.Name), "close") {
					sig := frame
					if victimOf != "" {
						sig = victimOf // the root of the wait-for chain names the defect, whatever frame the close waits in
					}
					r.Fail("C09", "close-never-returned", sig, fmt.Sprintf("close call %s on %s (task %s) had not returned at quiescence after settle; blocked at %s\n%s", c.Name, c.Node, c.Task.ID, frame, shortStack(stk)))
				}
				if victimOf != "" {
					// the root cause is the task that holds the lock for ever; name it, not the victim
					r.Fail("C20", "call-never-returned", victimOf, fmt.Sprintf("call %s on %s (task %s) had not returned at quiescence after settle: it waits for a lock that is never released\n%s", c.Name, c.Node, c.Task.ID, shortStack(stk)))
					continue
				}
				r.Fail("C20", "call-never-returned", "stuck-at:"+rootFrame(stk)+"("+c.Task.BlockOn()+")",
					fmt.Sprintf("call %s on %s (task %s) had not returned at quiescence after settle; blocked on %s at %s\n%s", c.Name, c.Node, c.Task.ID, c.Task.BlockOn(), frame, shortStack(stk)))
			}
		}
	}
	if !r.NoStuckCheck && !res.StepsOut && len(s.Panics) == 0 && res.HarnessErr == "" {
		var stuckT []*simrt.Task
		for _, cb := range r.Callbacks {
			if !cb.Done && (cb.Dead == nil || !cb.Dead()) {
				stuckT = append(stuckT, cb.Task)
			}
		}
		if len(stuckT) > 0 {
			stacks := s.StacksOf(stuckT)
			for _, cb := range r.Callbacks {
				if cb.Done || (cb.Dead != nil && cb.Dead()) {
					continue
				}
				stk := stacks[cb.Task.ID]
				where := "stuck-at:" + rootFrame(stk) + "(" + cb.Task.BlockOn() + ")"
				if v, rootStk := stuckRoot(s, cb.Task, stk); v != "" {
					where = v
					stk += rootStk
				}
				r.Fail("C20", "callback-never-returned", callClass(cb.Name)+"|"+where,
					fmt.Sprintf("%s delivered to node %s at step %d never returned (task %s blocked on %s)\n%s", cb.Name, cb.Node, cb.Step, cb.Task.ID, cb.Task.BlockOn(), shortStack(stk)))
			}
		}
	}
	if res.StepsOut && res.HarnessErr == "" {
		r.Probes["steps-exhausted"]++
	}
	if s.PreHits > 0 {
		r.Probes["preemptions-fired"] += s.PreHits
	}
	res.Viol = r.viol
	res.Probes = r.Probes
	res.Faults = r.Faults
	res.Sample = r.Sample
	if r.HarnessErr != "" && res.HarnessErr == "" {
		res.HarnessErr = r.HarnessErr
	}
	return res
}

// stuckRoot finds the root of the wait-for chain of a blocked task: lock holders, and - when the task waits for a
// channel's state machine (SendSync) - the state-machine stage that is itself stuck behind a lock. It returns a
// signature part naming the root ("" if the task itself is the root) and the root's stack for the report.
// StoppedLabels: node labels on which Manager.Stop has been called in this run (reset per run).
var StoppedLabels = map[string]bool{}

const afterStopSig = "waits-for-the-state-machines-that-Manager.Stop-had-already-stopped"

// waitsForStateMachine reports whether a stack is parked inside go-statemachine (event queue, synchronous query or the
// planner's notification hand-over).
func waitsForStateMachine(stk string) bool {
	return strings.Contains(stk, "go-statemachine.(*StateMachine).send") || strings.Contains(stk, "go-statemachine/fsm.(*stateGroup).SendSync") || strings.Contains(stk, "go-statemachine/fsm.fsmHandler.Plan")
}

// stuckRoot names the root cause of a blocked task (see stuckRootRaw). One mechanism gets a single name whatever
// callback it is seen through: after Manager.Stop has stopped the channels' state machines (it does that before it
// shuts the transport down) anything that still calls into them parks for ever, with the locks it holds.
func stuckRoot(s *simrt.Sim, t *simrt.Task, stk string) (string, string) {
	why, rootStk := stuckRootRaw(s, t, stk)
	if StoppedLabels[t.Label] {
		if (why == "" && waitsForStateMachine(stk)) || (rootStk != "" && waitsForStateMachine(rootStk)) {
			return afterStopSig, rootStk
		}
	}
	return why, rootStk
}

func stuckRootRaw(s *simrt.Sim, t *simrt.Task, stk string) (string, string) {
	rootOf := func(t0 *simrt.Task) (*simrt.Task, bool) {
		seen := map[*simrt.Task]bool{t0: true}
		hs := simrt.HoldersOf(t0)
		var root *simrt.Task
		for len(hs) > 0 {
			root = hs[0]
			if seen[root] {
				return root, true
			}
			seen[root] = true
			hs = simrt.HoldersOf(root)
		}
		return root, false
	}
	for _, h := range simrt.HoldersOf(t) {
		if h == t {
			// the task waits for a lock that it holds itself: name the frame that re-locks and the ones that led there
			return "relocks-own-lock:" + libChain(stk, 3), ""
		}
	}
	root, cycle := rootOf(t)
	if root == nil && strings.Contains(stk, "SendSync") {
		var cands []*simrt.Task
		for _, bt := range s.BlockedTasks() {
			if bt.WaitsOn != nil {
				cands = append(cands, bt)
			}
		}
		// prefer a blocked stage of a state machine
		stks := s.StacksOf(cands)
		sort.SliceStable(cands, func(i, j int) bool {
			return strings.Contains(stks[cands[i].ID], "go-statemachine") && !strings.Contains(stks[cands[j].ID], "go-statemachine")
		})
		for _, bt := range cands {
			if hs := simrt.HoldersOf(bt); len(hs) == 1 && hs[0] == t {
				// the stage needs a lock that this very task holds while it waits for the state machine
				return "holds-lock-needed-by-the-state-machine-stage-it-waits-for:" + rootFrame(stk), "\n--- state-machine stage " + bt.ID + " waits for a lock this task holds:\n" + shortStack(stks[bt.ID])
			}
			if rt, cyc := rootOf(bt); rt != nil {
				root, cycle = rt, cyc
				break
			}
		}
	}
	if root == nil && strings.Contains(stk, "errgroup.(*Group).Wait") {
		// the task waits for goroutines it spawned (Transport.Shutdown): follow a child that is stuck behind a lock
		for _, bt := range s.BlockedTasks() {
			if bt.WaitsOn != nil && strings.HasPrefix(bt.ID, t.ID+".") {
				// walk the holders; if the chain comes back to t (which holds a lock while it waits for its children) it is a cycle
				prev, seen := bt, map[*simrt.Task]bool{bt: true}
				for hs := simrt.HoldersOf(bt); len(hs) > 0; hs = simrt.HoldersOf(prev) {
					if hs[0] == t {
						pst := s.StacksOf([]*simrt.Task{prev})[prev.ID]
						return "lock-cycle-through:" + rootFrame(pst), "\n--- " + prev.ID + " holds the lock a spawned goroutine of this call needs and waits for a lock this call holds:\n" + shortStack(pst)
					}
					if seen[hs[0]] {
						break
					}
					prev = hs[0]
					seen[prev] = true
				}
				if rt, cyc := rootOf(bt); rt != nil {
					root, cycle = rt, cyc
					break
				}
			}
		}
	}
	if root == nil || root == t {
		return "", ""
	}
	rst := s.StacksOf([]*simrt.Task{root})[root.ID]
	// The holder at the end of the lock chain may itself only be waiting for a channel's state machine (a hook that
	// queries channel state with a cache lock held, say). If the stage of a state machine is blocked behind a lock whose
	// chain ends somewhere else, that other task is the root and this holder one more victim; if the chain ends at this
	// holder, it is the classic inversion (the stage needs the lock the holder keeps while waiting for the machine).
	for depth := 0; depth < 3 && !cycle && waitsForStateMachine(rst); depth++ {
		var stages []*simrt.Task
		for _, bt := range s.BlockedTasks() {
			if bt.WaitsOn != nil {
				stages = append(stages, bt)
			}
		}
		sst := s.StacksOf(stages)
		var next *simrt.Task
		nextCycle, own := false, false
		for _, bt := range stages {
			if !strings.Contains(sst[bt.ID], "go-statemachine") {
				continue
			}
			rt2, cyc2 := rootOf(bt)
			if rt2 == root {
				own = true
			} else if rt2 != nil && rt2 != t && next == nil {
				next, nextCycle = rt2, cyc2
			}
		}
		if own || next == nil {
			break
		}
		root, cycle = next, nextCycle
		rst = s.StacksOf([]*simrt.Task{root})[root.ID]
	}
	kind := "lock-held-for-ever-by:"
	if cycle {
		kind = "lock-cycle-through:"
	} else if strings.Contains(rst, "SendSync") {
		kind = "lock-held-while-waiting-for-state-machine-whose-stage-needs-it:"
	}
	return kind + rootFrame(rst), "\n--- root of the wait-for chain: task " + root.ID + " (" + root.Name + ") blocked on " + root.BlockOn() + ":\n" + shortStack(rst)
}

// callClass strips run-specific parts (ids) from a call name: "CloseDataTransferChannel#3" -> "CloseDataTransferChannel"
func callClass(n string) string {
	if i := strings.IndexAny(n, "#("); i > 0 {
		return n[:i]
	}
	return n
}

func shortStack(st string) string {
	lines := strings.Split(st, "\n")
	var out []string
	for i := 0; i < len(lines) && len(out) < 90; i++ {
		l := lines[i]
		if strings.Contains(l, "runtime/debug.Stack") || strings.Contains(l, "simrt.(*Sim).recoverTask") {
			i++
			continue
		}
		out = append(out, l)
	}
	return strings.Join(out, "\n")
}

// sortedBy returns the keys of m ordered by their rendering (deterministic iteration over maps in oracles).
func sortedBy[K comparable, V any](m map[K]V, str func(K) string) []K {
	ks := make([]K, 0, len(m))
	for k := range m {
		ks = append(ks, k)
	}
	sort.Slice(ks, func(i, j int) bool { return str(ks[i]) < str(ks[j]) })
	return ks
}

func chidStr(c datatransfer.ChannelID) string { return c.String() }

func sortedKeys[V any](m map[string]V) []string {
	ks := make([]string, 0, len(m))
	for k := range m {
		ks = append(ks, k)
	}
	sort.Strings(ks)
	return ks
}
