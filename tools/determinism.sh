#!/bin/bash
# determinism.sh "<props>" "<seeds>" [runs] : determinism self-test. Every (property, seed) is executed in several
# fresh processes at GOMAXPROCS 1, 4 and 16 (and concurrently with each other, i.e. under load); the per-run
# (stratum, schedule hash, steps, tape length, violations) lines must be identical. Exit 0 iff all agree.
W=${W:-/tmp/w1}; RUNS=${3:-25}
D=$(mktemp -d /tmp/det.XXXX)
cd $W
for prop in $1; do for seed in $2; do
  for rep in 1 2 3 4 5 6; do
    P=$(( rep % 3 == 0 ? 16 : (rep % 3 == 1 ? 1 : 4) ))
    ( GOMAXPROCS=$P GOLOG_LOG_LEVEL=fatal VERIF_ANYPROP=${ANY:-} VERIF_HASHLOG=$D/$prop-$seed-$rep.log VERIF_PROP=$prop VERIF_SEED=$seed VERIF_BUDGET_MS=600000 VERIF_MIN_MS=0 VERIF_MAXRUNS=$RUNS VERIF_KNOWN=/verif/known_findings.json VERIF_REPLAY_DIR=$D ./sim.test -test.run '^TestWorker$' > /dev/null 2>&1 ) &
  done
done; wait; done
bad=0; n=0
for prop in $1; do for seed in $2; do
  for rep in 2 3 4 5 6; do
    n=$((n+1))
    if ! cmp -s $D/$prop-$seed-1.log $D/$prop-$seed-$rep.log; then
      bad=$((bad+1)); echo "DIVERGED $prop seed=$seed rep=$rep:"; diff $D/$prop-$seed-1.log $D/$prop-$seed-$rep.log | head -4
    fi
  done
done; done
tot=$(cat $D/*-1.log | wc -l)
echo "determinism: $n comparisons over $tot runs x 6 processes (GOMAXPROCS 1/4/16), diverged=$bad"
rm -rf $D
[ $bad = 0 ]
