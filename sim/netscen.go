package sim

// netsim scenario: two real managers (initiator A, responder B) run generated transfers under
// pauses, limits, finalisation, vouchers, closes, restarts, connection cuts and process crashes.

import (
	"context"
	"errors"
	"fmt"
	"sort"
	"strings"
	"time"

	"github.com/ipfs/go-cid"
	"github.com/ipfs/go-graphsync"
	"github.com/ipld/go-ipld-prime/datamodel"
	"github.com/ipld/go-ipld-prime/node/basicnode"
	selectorparse "github.com/ipld/go-ipld-prime/traversal/selector/parse"
	"github.com/libp2p/go-libp2p/core/peer"

	datatransfer "github.com/filecoin-project/go-data-transfer/v2"
	"github.com/filecoin-project/go-data-transfer/v2/channelmonitor"
	"github.com/filecoin-project/go-data-transfer/v2/message"
	"github.com/filecoin-project/go-data-transfer/v2/transport/graphsync/extension"

	"verif/simrt"
)

type netCfg struct {
	nCh          int
	cuts         int  // connection cuts (healed)
	notifyCut    bool // both sides notice the disconnect
	crash        bool // process crash + restart of one node
	pauses       bool
	limits       bool
	finalization bool
	forcePause   bool
	vouchers     bool
	closes       bool
	restarts     bool
	monitorA     bool
	monitorB     bool
	stores       bool
	preseed      bool
	rejects      bool
	allPull      int // 0 mixed, 1 all pull, 2 all push
	advStranger, advRole, advRestart, advDup, advTerminal, advLocalRole bool
	holdOpen     bool // the responder's application never lifts limits / releases finalization: channels stay open and quiescent
	subs         bool // extra global subscribers (late subscribe / unsubscribe), per-transfer subscribers, transfers in both directions
	stopMid      bool // Manager.Stop on one node while transfers are active, optionally followed by a new manager on the same datastore
	sendFail     bool // from some graphsync delivery on, every stream write fails (streams still open) until the settle phase
}

type xfer struct {
	idx      int
	pull     bool
	chid     datatransfer.ChannelID
	opened   bool
	openErr  error
	root     cid.Cid
	sel      datamodel.Node
	voucher  datatransfer.TypedVoucher
	walk     []visit // traversal order over the sender's store
	payload  uint64  // Σ sizes of distinct blocks
	sndStore *Store
	rcvStore *Store
	perChA   bool
	perChB   bool
	preseed  int
	// app-level endings
	closedBy    map[string]bool // node names whose application closed the channel
	rejectedByB bool            // B's application rejected a (re)validation
	limit       uint64
	reqFin      bool
	forcePause  bool
	// validator outcomes for this transfer: 0 accept, 1 reject, 2 error
	newOutcome     int
	dupOutcome     int  // outcome of the validator when the same new request is validated again (duplicate new-requests): 0 accept, 1 reject, 2 reject with voucher result, 3 error
	newValidations int  // how often the new-request validator has been asked about this transfer
	restartOutcome int
	rejectResult   bool // a rejection carries a voucher result
	rawKind        string // hand-built request variant ("" = normal open): "no-voucher", "no-selector"
	raw            bool
}

func (x *xfer) sender(nr *netRun) *Node {
	if x.pull {
		return nr.B
	}
	return nr.A
}
func (x *xfer) receiver(nr *netRun) *Node {
	if x.pull {
		return nr.A
	}
	return nr.B
}

type netRun struct {
	r    *RunCtx
	w    *World
	A, B *Node
	cfg  netCfg
	xs   []*xfer
	byV  map[string]*xfer
	// fault bookkeeping
	cutActive bool
	ops       []*appOp
	extraChannelsAllowed int
	crashed   bool
	sendFailAt int
	rawSent   []rawRec
	subs      []*subLog
	reverse   []datatransfer.ChannelID
}

var ctxBG = context.Background()

type appOp struct {
	Node *Node
	Kind string
	X    *xfer
	Call *Call
	Life int
	Arg  string
	Res  datatransfer.ValidationResult
	HadActiveGS bool
	// state of the channel on that node right before the call (when known)
	Pre   Snap
	PreOK bool
	// state right after the call returned (Resume and UpdateValidationStatus; the query flushes the channel's event queue)
	Post   Snap
	PostOK bool
}

// api issues one manager API call as a tracked, timed call and logs it for the oracles.
func (nr *netRun) api(n *Node, kind string, x *xfer, f func() error) *appOp {
	op := &appOp{Node: n, Kind: kind, X: x, Life: n.life}
	nr.ops = append(nr.ops, op)
	c := &Call{Name: kind, Node: n.Name}
	op.Call = c
	if !n.Up {
		// the process is down: the application cannot call into it
		op.Life = -1
		c.Err = errProcessDead
		c.Returned = true
		return op
	}
	if (kind == "UpdateValidationStatus" || kind == "Restart") && x.opened {
		// the state the decision will be taken on (the resume rule of C08 compares the new limit with this progress)
		if ps, ok := n.State(x.chid); ok {
			op.Pre, op.PreOK = ps, true
		}
	}
	c.T0, c.S0 = time.Now(), nr.r.S.Steps
	if x.opened {
		op.HadActiveGS = n.GS.ActiveFor(x.chid.ID)
	}
	c.Err = f()
	c.T1, c.S1 = time.Now(), nr.r.S.Steps
	c.Returned = true
	if (kind == "Resume" || kind == "UpdateValidationStatus") && c.Err == nil && x.opened && n.life == op.Life {
		if ps, ok := n.State(x.chid); ok {
			op.Post, op.PostOK = ps, true
		}
	}
	if op.HadActiveGS && !(x.opened && n.GS.ActiveFor(x.chid.ID)) {
		op.HadActiveGS = false // the request ended while the call was running: transport effects are not required
	}
	nr.w.Logf("APP %s %s(#%d %d) -> %v", n.Name, kind, x.idx, x.chid.ID, c.Err)
	return op
}

func yieldN(n int) {
	for i := 0; i < n; i++ {
		simrt.Yield("app.wait")
	}
}

func defaultMonitor(r *RunCtx) *channelmonitor.Config {
	return &channelmonitor.Config{
		AcceptTimeout:          30 * time.Second,
		RestartDebounce:        time.Duration(100+r.Intn(400)) * time.Millisecond,
		RestartBackoff:         time.Duration(1+r.Intn(4)) * time.Second,
		MaxConsecutiveRestarts: uint32(3 + r.Intn(4)),
		CompleteTimeout:        60 * time.Second,
	}
}

func newNetRun(r *RunCtx, cfg netCfg) *netRun {
	nr := &netRun{r: r, w: r.W, cfg: cfg, byV: map[string]*xfer{}}
	var monA, monB *channelmonitor.Config
	if cfg.monitorA {
		monA = defaultMonitor(r)
	}
	if cfg.monitorB {
		monB = defaultMonitor(r)
	}
	types := []datatransfer.TypeIdentifier{"T0"}
	nr.A = r.W.NewNode(r, "A", NodeCfg{Monitor: monA, Types: types})
	nr.B = r.W.NewNode(r, "B", NodeCfg{Monitor: monB, Types: types})
	for _, n := range []*Node{nr.A, nr.B} {
		n := n
		n.ValNew = func(kind string, chid datatransfer.ChannelID) (datatransfer.ValidationResult, error) {
			return nr.validateNew(n, kind, chid)
		}
		n.ValRest = func(chid datatransfer.ChannelID, st datatransfer.ChannelState) (datatransfer.ValidationResult, error) {
			return nr.validateRestart(n, chid, st)
		}
	}
	nr.installWireTap()
	return nr
}

// installWireTap records data-transfer messages that travel as graphsync extensions.
func (nr *netRun) installWireTap() {
	dtExts := []graphsync.ExtensionName{extension.ExtensionIncomingRequest1_1, extension.ExtensionOutgoingBlock1_1, extension.ExtensionDataTransfer1_1}
	nr.w.GS.OnExt = func(from, to peer.ID, dir string, kind gsKind, exts []graphsync.ExtensionData) {
		seen := map[string]bool{}
		for _, name := range dtExts {
			for _, e := range exts {
				if e.Name != name || e.Data == nil {
					continue
				}
				msg, err := message.FromIPLD(e.Data)
				if err != nil {
					continue
				}
				sum := Summarise(msg)
				key := fmt.Sprintf("%v", sum)
				if seen[key] { // the same message is attached under two extension names for compatibility
					continue
				}
				seen[key] = true
				if dir == "send" {
					if n := nr.w.Nodes[from]; n != nil {
						n.wireSeq++
						n.Wire = append(n.Wire, WireRec{Step: nr.w.S.Steps, Dir: "sent", Peer: to, Sum: sum, Life: n.life, Carrier: "graphsync", Seq: n.wireSeq})
						nr.w.Logf("%s gs-ext -> %s: %s", n.Name, short(to), sum)
					}
				} else if n := nr.w.Nodes[to]; n != nil {
					n.Wire = append(n.Wire, WireRec{Step: nr.w.S.Steps, Dir: "recv", Peer: from, Sum: sum, Life: n.life, Carrier: "graphsync"})
				}
			}
		}
	}
}

func (nr *netRun) xferOf(chid datatransfer.ChannelID) *xfer {
	for _, x := range nr.xs {
		if x.opened && x.chid == chid {
			return x
		}
	}
	return nil
}

// validator policy: results are drawn per transfer when it is generated (so that oracles know them)
func (nr *netRun) validateNew(n *Node, kind string, chid datatransfer.ChannelID) (datatransfer.ValidationResult, error) {
	// the transfer is identified by the voucher the initiator used; the validator wrapper does not pass it, so
	// find the (unique) not-yet-validated transfer with this direction whose id matches, else by order
	var x *xfer
	for _, c := range nr.xs {
		if c.opened && c.chid.ID == chid.ID {
			x = c
		}
	}
	if x == nil {
		// the open call may not have returned yet: every transfer has its own DAG
		for _, c := range nr.xs {
			if !c.opened && c.root == n.ValBase && c.pull == (kind == "pull") {
				x = c
			}
		}
	}
	if x == nil {
		for _, c := range nr.xs {
			if !c.opened && c.pull == (kind == "pull") {
				x = c
				break
			}
		}
	}
	res := datatransfer.ValidationResult{Accepted: true}
	if x != nil {
		res.DataLimit = x.limit
		res.RequiresFinalization = x.reqFin
		res.ForcePause = x.forcePause
		if nr.cfg.vouchers {
			res.VoucherResult = &datatransfer.TypedVoucher{Voucher: basicnode.NewString(fmt.Sprintf("vr-new-%d", x.idx)), Type: "R0"}
		}
		x.newValidations++
		if x.newValidations > 1 && x.dupOutcome != 0 {
			// a duplicate of an already validated new request: the validator may well decide differently this time
			switch x.dupOutcome {
			case 1:
				res.Accepted = false
			case 2:
				res.Accepted = false
				res.VoucherResult = &datatransfer.TypedVoucher{Voucher: basicnode.NewString(fmt.Sprintf("vr-dup-reject-%d", x.idx)), Type: "R0"}
			case 3:
				return res, errors.New("validator failed on the duplicate")
			}
			return res, nil
		}
		switch x.newOutcome {
		case 1:
			res.Accepted = false // (ForcePause stays as drawn: a rejection may carry a pause decision as well)
			if x.rejectResult {
				res.VoucherResult = &datatransfer.TypedVoucher{Voucher: basicnode.NewString(fmt.Sprintf("vr-reject-%d", x.idx)), Type: "R0"}
			}
		case 2:
			return res, errors.New("validator failed")
		}
	}
	return res, nil
}

func (nr *netRun) validateRestart(n *Node, chid datatransfer.ChannelID, st datatransfer.ChannelState) (datatransfer.ValidationResult, error) {
	res := datatransfer.ValidationResult{Accepted: true}
	if x := nr.xferOf(chid); x != nil {
		// keep the current terms of the channel
		res.DataLimit = st.DataLimit()
		res.RequiresFinalization = st.RequiresFinalization()
		switch x.restartOutcome {
		case 1:
			res.Accepted = false
			res.ForcePause = x.forcePause // a rejection may carry a pause decision as well; it is a rejection all the same
			x.rejectedByB = true
		case 2:
			x.rejectedByB = true
			return res, errors.New("restart validator failed")
		}
	}
	return res, nil
}

// genXfer builds the payload and store configuration of one transfer.
func (nr *netRun) genXfer(i int) *xfer {
	r := nr.r
	x := &xfer{idx: i, closedBy: map[string]bool{}}
	switch nr.cfg.allPull {
	case 1:
		x.pull = true
	case 2:
		x.pull = false
	default:
		x.pull = r.Intn(2) == 0
	}
	x.voucher = datatransfer.TypedVoucher{Voucher: basicnode.NewString(fmt.Sprintf("v%d", i)), Type: "T0"}
	nr.byV[fmt.Sprintf("v%d", i)] = x
	snd, rcv := x.sender(nr), x.receiver(nr)
	x.sndStore, x.rcvStore = snd.Store, rcv.Store
	if nr.cfg.stores {
		if r.Intn(2) == 0 {
			x.sndStore = NewStore()
			if snd == nr.A {
				x.perChA = true
			} else {
				x.perChB = true
			}
		}
		if r.Intn(2) == 0 {
			x.rcvStore = NewStore()
			if rcv == nr.A {
				x.perChA = true
			} else {
				x.perChB = true
			}
		}
	}
	x.root, _ = GenDAG(x.sndStore, r.Intn, i)
	x.sel = selectorparse.CommonSelector_ExploreAllRecursively
	vis, _, err := walk(x.sndStore.LinkSystem(), x.root, x.sel, -1, func(_ int, c cid.Cid) ([]byte, bool) { return loadLocal(x.sndStore.LinkSystem(), c) })
	if err != nil {
		r.HarnessErr = "walk of generated DAG failed: " + err.Error()
		return nil
	}
	x.walk = vis
	seen := map[cid.Cid]bool{}
	for _, v := range vis {
		if !seen[v.link] {
			seen[v.link] = true
			x.payload += uint64(len(v.data))
		}
	}
	if nr.cfg.preseed {
		switch r.Intn(4) {
		case 0:
			x.preseed = len(vis)
		case 1:
			x.preseed = 1 + r.Intn(len(vis))
		}
		for _, v := range vis[:x.preseed] {
			x.rcvStore.M[v.link] = append([]byte(nil), v.data...)
		}
	}
	if nr.cfg.limits && r.Intn(4) != 0 {
		x.limit = uint64(1 + r.Intn(int(x.payload)+int(x.payload)/4+1))
	}
	if nr.cfg.finalization && r.Intn(2) == 0 {
		x.reqFin = true
	}
	if nr.cfg.forcePause && r.Intn(3) == 0 {
		x.forcePause = true
	}
	if nr.cfg.advDup {
		x.dupOutcome = r.Intn(4)
	}
	if nr.cfg.rejects {
		switch r.Intn(6) {
		case 0:
			x.newOutcome = 1
			x.rejectResult = r.Intn(2) == 0
		case 1:
			x.newOutcome = 2
		case 2:
			x.voucher.Type = "TX" // no validator registered for this type on the responder
		case 3:
			x.restartOutcome = 1 + r.Intn(2)
		case 4:
			x.rawKind = []string{"no-voucher", "no-selector"}[r.Intn(2)]
		}
	}
	return x
}

// open issues the Open*DataChannel call for x on A (as a tracked call).
func (nr *netRun) open(x *xfer) {
	a := nr.A
	var opts []datatransfer.TransferOption
	st := x.rcvStore
	if !x.pull {
		st = x.sndStore
	}
	if x.perChA {
		opts = append(opts, datatransfer.WithTransportOptions(a.UseStoreOption(st.LinkSystem())))
	}
	if nr.cfg.subs && x.rawKind == "" {
		opts = append(opts, nr.perTransferSub(x))
	}
	if x.rawKind != "" {
		// a hand-built new request without voucher / without selector, sent by the legitimate peer's network layer
		tid := datatransfer.TransferID(777000 + x.idx)
		var v *datatransfer.TypedVoucher
		sel := x.sel
		if x.rawKind == "no-selector" {
			sel = nil
			v = &x.voucher
		}
		msg, err := message.NewRequest(tid, false, false, v, x.root, sel)
		if err == nil {
			x.chid = datatransfer.ChannelID{Initiator: nr.A.ID, Responder: nr.B.ID, ID: tid}
			x.pull = false
			x.raw = true
			err = a.Net.SendMessage(context.Background(), nr.B.ID, msg)
		}
		x.openErr = err
		nr.w.Logf("APP A raw %s request tid=%d -> %v", x.rawKind, tid, err)
		return
	}
	var chid datatransfer.ChannelID
	var err error
	if x.pull {
		chid, err = a.Mgr.OpenPullDataChannel(context.Background(), nr.B.ID, x.voucher, x.root, x.sel, opts...)
	} else {
		chid, err = a.Mgr.OpenPushDataChannel(context.Background(), nr.B.ID, x.voucher, x.root, x.sel, opts...)
	}
	x.chid, x.openErr = chid, err
	x.opened = chid.ID != 0
	nr.w.Logf("APP A open #%d pull=%v -> chid=%d err=%v (blocks=%d payload=%d preseed=%d limit=%d fin=%v fp=%v)", x.idx, x.pull, chid.ID, err, len(x.walk), x.payload, x.preseed, x.limit, x.reqFin, x.forcePause)
}

// responder-side transport configurer: per-channel store chosen by voucher
func (nr *netRun) registerConfigurers() {
	for _, n := range []*Node{nr.A, nr.B} {
		nr.registerConfigurersOn(n)
	}
}

func (nr *netRun) registerConfigurersOn(n *Node) {
	{
		_ = n.Mgr.RegisterTransportConfigurer("T0", func(chid datatransfer.ChannelID, v datatransfer.TypedVoucher) []datatransfer.TransportOption {
			s, err := v.Voucher.AsString()
			if err != nil {
				return nil
			}
			x := nr.byV[s]
			if x == nil {
				return nil
			}
			if n == nr.A && x.perChA {
				// needed when the initiator process restarts: the per-transfer option of the open call is gone
				st := x.rcvStore
				if !x.pull {
					st = x.sndStore
				}
				return []datatransfer.TransportOption{n.UseStoreOption(st.LinkSystem())}
			}
			if n == nr.B && x.perChB {
				st := x.sndStore
				if !x.pull {
					st = x.rcvStore
				}
				return []datatransfer.TransportOption{n.UseStoreOption(st.LinkSystem())}
			}
			return nil
		})
	}
}

// ---------------------------------------------------------------- application behaviour (SimApp)

func (nr *netRun) installApps() {
	r := nr.r
	b := nr.B
	b.OnEvent = func(ev NodeEv) {
		x := nr.xferOf(ev.Snap.ChID)
		if x == nil {
			// the responder learns the channel id before A's open call returns
			for _, c := range nr.xs {
				if !c.opened && c.voucher.Type == "T0" && ev.Snap.Voucher0 == encTV(c.voucher) {
					x = c
				}
			}
			if x == nil {
				return
			}
		}
		chid := ev.Snap.ChID
		if nr.cfg.holdOpen {
			return
		}
		switch ev.Code {
		case datatransfer.DataLimitExceeded:
			progress := ev.Snap.Queued
			if !ev.Snap.IsPull {
				progress = ev.Snap.Received
			}
			d := time.Duration(1+r.Intn(4000)) * time.Millisecond
			mode := r.Intn(10)
			r.Op("B", "app:revalidate", func() {
				simrt.Sleep(d)
				res := datatransfer.ValidationResult{Accepted: true, RequiresFinalization: x.reqFin}
				switch {
				case mode < 4:
					res.DataLimit = 0
				case mode < 8:
					res.DataLimit = progress + uint64(1+r.Intn(2000))
				case mode == 8:
					// not above the progress made so far: stays paused; lifted later
					res.DataLimit = progress
					if progress > 1 && r.Intn(2) == 0 {
						res.DataLimit = progress - uint64(r.Intn(int(min(progress-1, 400))+1))
					}
				default:
					if nr.cfg.rejects {
						res.Accepted = false
						x.rejectedByB = true
					} else {
						res.DataLimit = 0
					}
				}
				x.limit = res.DataLimit
				op := nr.api(b, "UpdateValidationStatus", x, func() error { return b.Mgr.UpdateValidationStatus(context.Background(), chid, res) })
				op.Res = res
				if mode == 8 {
					simrt.Sleep(time.Duration(1+r.Intn(3000)) * time.Millisecond)
					res.DataLimit = 0
					x.limit = 0
					op := nr.api(b, "UpdateValidationStatus", x, func() error { return b.Mgr.UpdateValidationStatus(context.Background(), chid, res) })
					op.Res = res
				}
			})
		case datatransfer.BeginFinalizing:
			d := time.Duration(1+r.Intn(4000)) * time.Millisecond
			keepFirst := r.Intn(3) == 0
			keepLimit := uint64(0)
			if r.Intn(2) == 0 {
				keepLimit = 1 << 40 // a limit far above anything transferred
			}
			d2 := time.Duration(1+r.Intn(3000)) * time.Millisecond
			r.Op("B", "app:finalize", func() {
				simrt.Sleep(d)
				if keepFirst {
					// an accepting update that still requires finalization (e.g. re-sending the terms with an intermediate
					// voucher result) does not release the responder
					keep := datatransfer.ValidationResult{Accepted: true, RequiresFinalization: true, DataLimit: keepLimit}
					op := nr.api(b, "UpdateValidationStatus", x, func() error { return b.Mgr.UpdateValidationStatus(context.Background(), chid, keep) })
					op.Res = keep
					simrt.Sleep(d2)
				}
				res := datatransfer.ValidationResult{Accepted: true}
				op := nr.api(b, "UpdateValidationStatus", x, func() error { return b.Mgr.UpdateValidationStatus(context.Background(), chid, res) })
				op.Res = res
			})
		case datatransfer.Accept:
			if x.forcePause {
				d := time.Duration(1+r.Intn(4000)) * time.Millisecond
				r.Op("B", "app:release-forcepause", func() {
					simrt.Sleep(d)
					res := datatransfer.ValidationResult{Accepted: true, DataLimit: x.limit, RequiresFinalization: x.reqFin}
					op := nr.api(b, "UpdateValidationStatus", x, func() error { return b.Mgr.UpdateValidationStatus(context.Background(), chid, res) })
					op.Res = res
				})
			}
		}
	}
}

// timed / step-placed application operations on the channel of x
func (nr *netRun) scheduleOps(x *xfer) {
	r := nr.r
	cfg := nr.cfg
	nodeOf := func() *Node {
		if r.Intn(2) == 0 {
			return nr.A
		}
		return nr.B
	}
	if cfg.pauses {
		for k := 0; k < 1+r.Intn(2); k++ {
			n := nodeOf()
			wait := 2 + r.Intn(12*len(x.walk)+10)
			hold := time.Duration(r.Intn(3000)) * time.Millisecond
			r.Op(n.Name, "app:pause-resume", func() {
				yieldN(wait)
				if !x.opened {
					return
				}
				nr.api(n, "Pause", x, func() error { return n.Mgr.PauseDataTransferChannel(context.Background(), x.chid) })
				simrt.Sleep(hold)
				nr.api(n, "Resume", x, func() error { return n.Mgr.ResumeDataTransferChannel(context.Background(), x.chid) })
			})
		}
	}
	if cfg.vouchers && r.Intn(2) == 0 {
		wait := 2 + r.Intn(10*len(x.walk)+10)
		nV := 1 + r.Intn(4)
		vSeq, gapsV := make([]int, nV), make([]int, nV)
		for i := range vSeq {
			vSeq[i], gapsV[i] = r.Intn(2), r.Intn(40)
		}
		r.Op("A", "app:send-voucher", func() {
			yieldN(wait)
			if !x.opened {
				return
			}
			// 1-4 vouchers in a row, contents from a set of two so that the same content repeats (also back to back)
			for i := 0; i < nV; i++ {
				v := datatransfer.TypedVoucher{Voucher: basicnode.NewString(fmt.Sprintf("v%d-extra-%d", x.idx, vSeq[i])), Type: "T0"}
				op := nr.api(nr.A, "SendVoucher", x, func() error { return nr.A.Mgr.SendVoucher(context.Background(), x.chid, v) })
				op.Arg = encTV(v)
				yieldN(gapsV[i])
			}
		})
		wait2 := 2 + r.Intn(10*len(x.walk)+10)
		nR := 1 + r.Intn(4)
		rSeq, gapsR := make([]int, nR), make([]int, nR)
		for i := range rSeq {
			rSeq[i], gapsR[i] = r.Intn(2), r.Intn(40)
		}
		r.Op("B", "app:send-voucher-result", func() {
			yieldN(wait2)
			if !x.opened {
				return
			}
			for i := 0; i < nR; i++ {
				v := datatransfer.TypedVoucher{Voucher: basicnode.NewString(fmt.Sprintf("vr%d-extra-%d", x.idx, rSeq[i])), Type: "R0"}
				op := nr.api(nr.B, "SendVoucherResult", x, func() error { return nr.B.Mgr.SendVoucherResult(context.Background(), x.chid, v) })
				op.Arg = encTV(v)
				yieldN(gapsR[i])
			}
		})
	}
	if cfg.closes && r.Intn(3) == 0 {
		n := nodeOf()
		wait := 2 + r.Intn(14*len(x.walk)+10)
		r.Op(n.Name, "app:close", func() {
			yieldN(wait)
			if !x.opened {
				return
			}
			x.closedBy[n.Name] = true
			nr.api(n, "Close", x, func() error { return n.Mgr.CloseDataTransferChannel(context.Background(), x.chid) })
		})
	}
	if cfg.restarts && r.Intn(2) == 0 {
		n := nodeOf()
		wait := 2 + r.Intn(14*len(x.walk)+10)
		r.Op(n.Name, "app:restart", func() {
			yieldN(wait)
			if !x.opened {
				return
			}
			nr.api(n, "Restart", x, func() error { return n.Mgr.RestartDataTransferChannel(context.Background(), x.chid) })
		})
	}
}

// ---------------------------------------------------------------- faults

// installSendFail: one graphsync message is lost (transport error on both sides) and from then on every libp2p
// stream write fails although streams can still be opened: reconnecting works, sending the restart does not.
func (nr *netRun) installSendFail() {
	r := nr.r
	total := 0
	for _, x := range nr.xs {
		total += len(x.walk)
	}
	at := 2 + r.Intn(total+2)
	fired := false
	nr.w.GS.OnDeliver = func(from, to peer.ID, m *gsMsg) bool {
		if fired || nr.w.GS.Delivered < at {
			return false
		}
		fired = true
		nr.sendFailAt = nr.w.S.Steps
		nr.w.Net.WriteFail = 1 << 30
		r.Fault("persistent-write-failure")
		nr.w.Logf("FAULT graphsync message lost; all stream writes fail from now on")
		return true
	}
}

func (nr *netRun) installCuts() {
	r := nr.r
	if nr.cfg.cuts == 0 {
		return
	}
	total := 0
	for _, x := range nr.xs {
		total += len(x.walk)
	}
	var at []int
	for i := 0; i < nr.cfg.cuts; i++ {
		at = append(at, 2+r.Intn(2*total+4))
	}
	sort.Ints(at)
	dur := make([]time.Duration, len(at))
	for i := range dur {
		dur[i] = time.Duration(500+r.Intn(20000)) * time.Millisecond
	}
	next := 0
	nr.w.GS.OnDeliver = func(from, to peer.ID, m *gsMsg) bool {
		if next >= len(at) || nr.w.GS.Delivered < at[next] || nr.cutActive {
			return false
		}
		d := dur[next]
		next++
		nr.cutActive = true
		nr.w.Net.Cut(nr.A.ID, nr.B.ID, true)
		r.Fault("connection-cut")
		nr.w.Logf("FAULT cut A<->B at gs delivery %d for %v", nr.w.GS.Delivered, d)
		if nr.cfg.notifyCut {
			nr.w.GS.NotifyDisconnect(nr.A.ID, nr.B.ID)
		}
		simrt.Go(func() {
			simrt.Sleep(d)
			nr.w.Net.Cut(nr.A.ID, nr.B.ID, false)
			nr.cutActive = false
			nr.w.Logf("FAULT heal A<->B")
			if !nr.cfg.monitorA && !nr.cfg.monitorB {
				// no monitor: the application restarts its channels after the heal
				n := nr.A
				if r.Intn(2) == 0 {
					n = nr.B
				}
				for _, x := range nr.xs {
					x := x
					if !x.opened {
						continue
					}
					r.Op(n.Name, "app:restart-after-heal", func() {
						nr.api(n, "Restart", x, func() error { return n.Mgr.RestartDataTransferChannel(context.Background(), x.chid) })
					})
				}
			}
		})
		return true
	}
}

// installCrash arms one process crash: node X dies right after its k-th datastore write (keeping a prefix of the
// write log that ends at most 2 writes earlier), comes back after a tape-chosen downtime with a fresh manager on
// the surviving state, and its application restarts every non-terminal channel (as a Filecoin node does on start-up).
func (nr *netRun) installCrash() {
	r := nr.r
	n := nr.A
	if r.Intn(2) == 0 {
		n = nr.B
	}
	total := 0
	for _, x := range nr.xs {
		total += len(x.walk)
	}
	k := len(n.Disk.Log) + 1 + r.Intn(6+3*total)
	down := time.Duration(r.Intn(8000)) * time.Millisecond
	armed := true
	n.Disk.OnCommit = func(cnt int) {
		if !armed || cnt < k {
			return
		}
		armed = false
		// the process dies at this very instant: everything written so far is durable, nothing later is;
		// whatever the old instance still does (it keeps running as a zombie) reaches neither disk nor network
		r.Fault("process-crash")
		nr.crashed = true
		n.Disk.OnCommit = nil
		n.Crash(cnt)
		for _, c := range r.Calls {
			if c.Node == n.Name && c.Task != nil && !c.Task.Done() {
				c.AllowBlocked = true // calls in flight inside the dead process never return
			}
		}
		simrt.Go(func() {
			nr.w.Net.Cut(nr.A.ID, nr.B.ID, false)
			simrt.Sleep(down)
			if !n.Start() {
				return
			}
			nr.registerConfigurersOn(n)
			chans, err := n.Mgr.InProgressChannels(ctxBG)
			if err != nil {
				return
			}
			for _, x := range nr.xs {
				x := x
				st, ok := chans[x.chid]
				if !x.opened || !ok {
					continue
				}
				sn := TakeSnap(r, "InProgressChannels-after-crash", st)
				if isTerminal(sn.Status) {
					continue
				}
				wait := time.Duration(r.Intn(3000)) * time.Millisecond
				r.Op(n.Name, "app:restart-after-crash", func() {
					simrt.Sleep(wait)
					nr.api(n, "Restart", x, func() error { return n.Mgr.RestartDataTransferChannel(context.Background(), x.chid) })
				})
			}
		})
	}
}

// installStopMid stops one node's manager in an orderly way at a tape-chosen moment of the run phase (after so many
// scheduling steps or so much simulated time), while transfers are active; the process then exits and, in half of the
// runs, a new manager starts on the same datastore and restarts the unfinished channels.
func (nr *netRun) installStopMid() {
	r := nr.r
	n := nr.A
	if r.Intn(2) == 0 {
		n = nr.B
	}
	bySteps := r.Intn(2) == 0
	nSteps := r.Intn(6000)
	after := time.Duration(r.Intn(20000)) * time.Millisecond
	comeBack := r.Intn(2) == 0
	down := time.Duration(r.Intn(8000)) * time.Millisecond
	simrt.GoNamed("app:stop-mid", n.Name, func() {
		if bySteps {
			yieldN(nSteps)
		} else {
			simrt.Sleep(after)
		}
		r.Fault("manager-stop-while-active")
		nr.crashed = true // same relaxations as a crash without data loss
		if !n.StopClean() {
			return
		}
		for _, c := range r.Calls {
			if c.Node == n.Name && c.Task != nil && !c.Task.Done() {
				c.AllowBlocked = true // the process has exited
			}
		}
		if !comeBack {
			return
		}
		simrt.Sleep(down)
		if !n.Start() {
			return
		}
		nr.registerConfigurersOn(n)
		chans, err := n.Mgr.InProgressChannels(ctxBG)
		if err != nil {
			return
		}
		for _, x := range nr.xs {
			x := x
			st, ok := chans[x.chid]
			if !x.opened || !ok {
				continue
			}
			if sn := TakeSnap(r, "InProgressChannels-after-stop", st); isTerminal(sn.Status) {
				continue
			}
			wait := time.Duration(r.Intn(3000)) * time.Millisecond
			r.Op(n.Name, "app:restart-after-stop", func() {
				simrt.Sleep(wait)
				nr.api(n, "Restart", x, func() error { return n.Mgr.RestartDataTransferChannel(context.Background(), x.chid) })
			})
		}
	})
}

// ---------------------------------------------------------------- the scenario

func netTransfer(mk func(r *RunCtx) netCfg) func(r *RunCtx) {
	return func(r *RunCtx) {
		cfg := mk(r)
		nr := newNetRun(r, cfg)
		if !nr.A.Start() || !nr.B.Start() {
			return
		}
		nr.registerConfigurers()
		nr.installApps()
		for i := 0; i < cfg.nCh; i++ {
			x := nr.genXfer(i)
			if x == nil {
				return
			}
			nr.xs = append(nr.xs, x)
		}
		nr.installCuts()
		if cfg.sendFail {
			nr.installSendFail()
		}
		if cfg.crash {
			nr.installCrash()
		}
		if cfg.stopMid {
			nr.installStopMid()
		}
		if cfg.subs {
			nr.installSubs()
		}
		r.S.SetPreemptions(r.Intn(4))
		if cfg.subs || cfg.stopMid || r.Intn(4) == 0 {
			// some runs leave freshly started library goroutines waiting for a while (a goroutine the OS scheduler does not
			// get to): always in the subscriber and stop strata, in a quarter of all other two-node runs
			r.S.SpawnDelayDen, r.S.SpawnDelayMax = 4+r.Intn(12), 20+r.Intn(400)
		}
		for _, x := range nr.xs {
			x := x
			r.Op("A", fmt.Sprintf("Open#%d", x.idx), func() { nr.open(x) })
			nr.scheduleOps(x)
		}
		// run phase, then settle: faults stop, partitions heal, everything drains
		simrt.Sleep(5 * time.Minute)
		nr.w.GS.OnDeliver = nil
		nr.w.Net.WriteFail = 0
		nr.w.Net.Cut(nr.A.ID, nr.B.ID, false)
		simrt.Sleep(30 * time.Minute)
		nr.evaluate()
		if cfg.subs {
			nr.checkSubscribers()
		}
		nr.adversarialPhase()
		if nr.A.Up {
			nr.A.StopTracked(false)
		}
		if nr.B.Up {
			nr.B.StopTracked(false)
		}
	}
}

// ---------------------------------------------------------------- oracles

func (nr *netRun) evaluate() {
	r := nr.r
	nr.A.collectGS()
	nr.B.collectGS()
	if len(nr.reverse) > 0 {
		// transfers in both directions with equal transfer ids (C17's subscriber stratum): the per-transfer oracles of
		// the other properties identify channels by transfer id and direction A->B, so they stay out of such runs
		return
	}
	nr.checkChannelCount()
	for _, x := range nr.xs {
		if x.raw {
			nr.checkC04NotAccepted(x)
			continue
		}
		if !x.opened {
			continue
		}
		if x.newOutcome != 0 || x.voucher.Type == "TX" {
			nr.checkC04NotAccepted(x)
		}
		nr.checkC01(x)
		nr.checkC02(x)
		nr.checkC04(x)
		nr.checkC09(x)
		nr.checkC10(x)
		nr.checkC11(x)
		nr.checkC08(x)
		nr.checkC19(x)
		for _, n := range []*Node{nr.A, nr.B} {
			for life := 0; life <= n.life; life++ {
				evs := lifeEvents(n, x.chid, life)
				sev := make([]StreamEv, 0, len(evs))
				for _, e := range evs {
					sev = append(sev, StreamEv{Code: e.Code, Snap: e.Snap, Step: e.Step})
				}
				checkStream(r, fmt.Sprintf("node %s channel #%d (life %d)", n.Name, x.idx, life), n == nr.A, nil, encTV(x.voucher), sev)
			}
		}
	}
	nr.checkC14()
	nr.wireMonitor()
	sa := map[string]int{}
	for _, x := range nr.xs {
		if s, ok := nr.A.State(x.chid); ok {
			sa[datatransfer.Statuses[s.Status]]++
			r.Probe("A-final:" + datatransfer.Statuses[s.Status])
		}
		if s, ok := nr.B.State(x.chid); ok {
			r.Probe("B-final:" + datatransfer.Statuses[s.Status])
		}
	}
	r.Sample["channels"] = len(nr.xs)
	r.Sample["initiator_final_statuses"] = sa
	r.Sample["gs_messages_delivered"] = nr.w.GS.Delivered
	var desc []string
	for _, x := range nr.xs {
		desc = append(desc, fmt.Sprintf("#%d pull=%v blocks=%d payload=%d preseed=%d limit=%d fin=%v fp=%v storeA=%v storeB=%v", x.idx, x.pull, len(x.walk), x.payload, x.preseed, x.limit, x.reqFin, x.forcePause, x.perChA, x.perChB))
	}
	r.Sample["transfers"] = desc
}

func (nr *netRun) accepted(x *xfer) bool {
	for _, e := range nr.A.EventsOf(x.chid) {
		if e.Code == datatransfer.Accept {
			return true
		}
	}
	return false
}

// verifyReceiverStore: a fresh selector walk over the receiver's store must find every block, byte-identical.
func (nr *netRun) verifyReceiverStore(x *xfer) (bool, string) {
	ls := x.rcvStore.LinkSystem()
	vis, _, err := walk(ls, x.root, x.sel, -1, func(_ int, c cid.Cid) ([]byte, bool) { return loadLocal(ls, c) })
	if err != nil {
		return false, "walk error: " + err.Error()
	}
	if len(vis) != len(x.walk) {
		return false, fmt.Sprintf("walk visits %d positions, sender's DAG has %d", len(vis), len(x.walk))
	}
	for i, v := range vis {
		if v.data == nil {
			return false, fmt.Sprintf("block at position %d (%s) missing", i+1, v.link)
		}
		if v.link != x.walk[i].link || string(v.data) != string(x.walk[i].data) {
			return false, fmt.Sprintf("block at position %d differs from the sender's", i+1)
		}
	}
	return true, ""
}

func (nr *netRun) checkC01(x *xfer) {
	r := nr.r
	sa, okA := nr.A.State(x.chid)
	if !okA || sa.Status != datatransfer.Completed {
		return
	}
	dir := "push"
	if x.pull {
		dir = "pull"
	}
	if !nr.accepted(x) {
		// local-only completion: only legitimate for a pull whose DAG was entirely local
		if x.pull && x.preseed == len(x.walk) {
			r.Probe("local-only-pull-completed")
			if _, okB := nr.B.State(x.chid); okB {
				// the responder may have seen the request if the network request was sent; with a fully local DAG it is not
				r.Failf("C01", "local-pull-created-responder-channel", dir, "pull #%d was satisfied entirely from the initiator's store and completed un-accepted, yet the responder has a channel", x.idx)
			}
		}
		return
	}
	r.Probe("accepted-completed")
	if len(r.Faults) > 0 || x.limit > 0 || x.reqFin || x.forcePause || nr.cfg.pauses {
		r.Probe("nontrivial")
	}
	sb, okB := nr.B.State(x.chid)
	if !okB {
		r.Failf("C01", "responder-has-no-channel", dir, "initiator reports %s #%d Completed (accepted) but the responder has no channel %v", dir, x.idx, x.chid)
		return
	}
	// the responder put an un-paused Complete on the wire
	sentFinal := false
	for _, w := range nr.B.Wire {
		if w.Dir == "sent" && w.Err == "" && !w.Sum.Req && w.Sum.TID == x.chid.ID && w.Sum.Complete && !w.Sum.Paused {
			sentFinal = true
		}
	}
	if !sentFinal {
		r.Failf("C01", "completed-without-final-complete", dir, "initiator reports %s #%d Completed but the responder never sent an un-paused Complete (responder status %s)", dir, x.idx, datatransfer.Statuses[sb.Status])
	}
	if sb.Status != datatransfer.Completed && !x.closedBy["B"] && !x.rejectedByB && !nr.crashed {
		r.Failf("C01", "responder-not-completed", dir+"|"+datatransfer.Statuses[sb.Status], "initiator reports %s #%d Completed but the responder settled in %s (its application did not cancel or fail it)", dir, x.idx, datatransfer.Statuses[sb.Status])
	}
	if ok, why := nr.verifyReceiverStore(x); !ok {
		r.Failf("C01", "receiver-store-incomplete", dir, "initiator reports %s #%d Completed but the receiver's store fails the selector walk: %s", dir, x.idx, why)
	}
	snd, rcv := sa, sb
	if x.pull {
		snd, rcv = sb, sa
	}
	if nr.crashed {
		// a crash may cut between the two events of one block report; byte totals after it are C06/C07 territory
		return
	}
	if x.preseed == 0 {
		// C07's accounting as seen on a real transfer: every block position counted once, unique bytes only - on each
		// side separately (also across restarts and re-sent blocks). (Index totals are the highest position *reported*;
		// trailing positions whose blocks never went on the wire are not reported - C16 - so they are bounded, not fixed.)
		if snd.Queued != x.payload || snd.Sent > snd.Queued || int(snd.QIdx) > len(x.walk) {
			r.Failf("C07", "net-sender-totals", dir, "%s #%d Completed: sender Queued=%d Sent=%d queued index=%d, unique payload=%d in %d traversal positions", dir, x.idx, snd.Queued, snd.Sent, snd.QIdx, x.payload, len(x.walk))
		}
		if rcv.Received != x.payload || int(rcv.RIdx) > len(x.walk) {
			r.Failf("C07", "net-receiver-totals", dir, "%s #%d Completed: receiver Received=%d received index=%d, unique payload=%d in %d traversal positions", dir, x.idx, rcv.Received, rcv.RIdx, x.payload, len(x.walk))
		}
		if rcv.Received != snd.Queued || snd.Queued != x.payload {
			r.Failf("C01", "totals-disagree", dir, "%s #%d Completed: receiver Received=%d sender Queued=%d unique payload=%d (blocks=%d)", dir, x.idx, rcv.Received, snd.Queued, x.payload, len(x.walk))
		}
	} else if rcv.Received > snd.Queued || snd.Queued > x.payload {
		r.Failf("C01", "totals-exceed-payload", dir, "%s #%d Completed with pre-seeded receiver: Received=%d Queued=%d payload=%d", dir, x.idx, rcv.Received, snd.Queued, x.payload)
	}
}

// wireMonitor (C12): every data-transfer message a node received equals, field by field, one that the peer sent.
func (nr *netRun) wireMonitor() {
	r := nr.r
	for _, pr := range [][2]*Node{{nr.A, nr.B}, {nr.B, nr.A}} {
		from, to := pr[0], pr[1]
		avail := map[string]int{}
		for _, w := range from.Wire {
			if (w.Dir == "send" || (w.Dir == "sent" && w.Carrier == "graphsync")) && w.Peer == to.ID {
				avail[fmt.Sprintf("%+v", w.Sum)]++
			}
		}
		for _, rs := range nr.rawSent {
			if rs.from == from.ID && rs.to == to.ID {
				avail[fmt.Sprintf("%+v", rs.sum)]++
			}
		}
		for _, w := range to.Wire {
			if w.Dir != "recv" || w.Peer != from.ID {
				continue
			}
			k := fmt.Sprintf("%+v", w.Sum)
			if avail[k] == 0 {
				r.Failf("C12", "wire-monitor", w.Sum.Kind()+"|"+w.Carrier, "%s received %+v from %s over %s, which matches no message %s sent", to.Name, w.Sum, from.Name, w.Carrier, from.Name)
				continue
			}
			r.Probe("wire-roundtrips")
		}
	}
}

var _ = errors.New
var _ = strings.Join

func init() {
	base := func(r *RunCtx) netCfg { return netCfg{nCh: 1 + r.Intn(2), stores: r.Intn(2) == 0, preseed: r.Intn(4) == 0} }
	crashCfg := func(r *RunCtx) netCfg {
		c := base(r)
		c.crash = true
		c.limits, c.finalization, c.pauses = r.Intn(3) == 0, r.Intn(3) == 0, r.Intn(4) == 0
		c.monitorA, c.monitorB = r.Intn(2) == 0, r.Intn(3) == 0
		return c
	}
	pausesCfg := func(r *RunCtx) netCfg {
		c := base(r)
		c.pauses = true
		c.limits, c.finalization, c.forcePause = r.Intn(3) == 0, r.Intn(3) == 0, r.Intn(4) == 0
		return c
	}
	mixCfg := func(r *RunCtx) netCfg {
		c := base(r)
		c.pauses, c.limits, c.finalization, c.forcePause, c.vouchers = r.Intn(2) == 0, r.Intn(2) == 0, r.Intn(2) == 0, r.Intn(3) == 0, r.Intn(2) == 0
		c.closes, c.restarts = r.Intn(2) == 0, r.Intn(2) == 0
		if r.Intn(2) == 0 {
			c.cuts = 1 + r.Intn(2)
			c.notifyCut = r.Intn(2) == 0
			c.monitorA = r.Intn(2) == 0
		}
		return c
	}
	closesCfg := func(r *RunCtx) netCfg {
		c := base(r)
		c.closes = true
		c.pauses, c.limits, c.finalization = r.Intn(3) == 0, r.Intn(3) == 0, r.Intn(3) == 0
		if r.Intn(3) == 0 {
			c.cuts, c.monitorA = 1, r.Intn(2) == 0
		}
		return c
	}
	restartsCfg := func(r *RunCtx) netCfg {
		c := base(r)
		c.restarts = true
		c.limits, c.pauses, c.finalization = r.Intn(3) == 0, r.Intn(3) == 0, r.Intn(3) == 0
		if r.Intn(2) == 0 {
			c.cuts = 1 + r.Intn(2)
			c.notifyCut = r.Intn(2) == 0
			c.monitorA, c.monitorB = r.Intn(2) == 0, r.Intn(4) == 0
		}
		return c
	}
	vouchersCfg := func(r *RunCtx) netCfg {
		c := base(r)
		c.vouchers = true
		c.limits, c.finalization, c.closes = r.Intn(2) == 0, r.Intn(3) == 0, r.Intn(4) == 0
		if r.Intn(3) == 0 {
			c.cuts = 1
		}
		return c
	}
	Register("C01", Stratum{Name: "net-process-crash-and-restart", Weight: 1, Fn: netTransfer(crashCfg)})
	Register("C10", Stratum{Name: "net-process-crash-and-restart", Weight: 3, Fn: netTransfer(crashCfg)})
	Register("C06", Stratum{Name: "net-process-crash-and-restart", Weight: 2, Fn: netTransfer(crashCfg)})
	Register("C09", Stratum{Name: "net-process-crash-and-restart", Weight: 1, Fn: netTransfer(crashCfg)})
	advCfg := func(stranger, role, restart, dup, terminal, local bool) func(r *RunCtx) netCfg {
		return func(r *RunCtx) netCfg {
			c := base(r)
			c.nCh = 1 + r.Intn(3)
			c.advStranger, c.advRole, c.advRestart, c.advDup, c.advTerminal, c.advLocalRole = stranger, role, restart, dup, terminal, local
			c.vouchers = restart && r.Intn(2) == 0 // channels with several vouchers: a restart must repeat the first one
			c.limits, c.finalization, c.forcePause, c.pauses = r.Intn(2) == 0, r.Intn(2) == 0, r.Intn(3) == 0, r.Intn(3) == 0
			c.holdOpen = r.Intn(3) != 0 // mostly keep channels open and quiescent so that there is live state to protect
			c.closes = r.Intn(4) == 0
			return c
		}
	}
	Register("C05", Stratum{Name: "net-adversary-strangers-and-role-confusion", Weight: 3, Fn: netTransfer(advCfg(true, true, false, false, false, true))},
		Stratum{Name: "net-adversary-restart-requests", Weight: 3, Fn: netTransfer(advCfg(false, false, true, false, false, false))},
		Stratum{Name: "net-adversary-all", Weight: 1, Fn: netTransfer(advCfg(true, true, true, true, true, true))})
	Register("C18", Stratum{Name: "net-duplicate-new-requests", Weight: 3, Fn: netTransfer(advCfg(false, false, false, true, false, false))})
	Register("C02", Stratum{Name: "net-terminal-followups", Weight: 3, Fn: netTransfer(func(r *RunCtx) netCfg {
		c := advCfg(false, false, true, false, true, false)(r)
		c.holdOpen = false
		c.closes = r.Intn(2) == 0
		c.rejects = r.Intn(3) == 0
		return c
	})})
	Register("C14", Stratum{Name: "net-monitor-persistent-send-failure", Weight: 2, Fn: netTransfer(func(r *RunCtx) netCfg {
		c := netCfg{nCh: 1, sendFail: true, monitorA: true, allPull: 2, stores: r.Intn(2) == 0}
		c.monitorB = r.Intn(3) == 0
		return c
	})})
	limitsCfg := func(r *RunCtx) netCfg {
		c := base(r)
		c.limits = true
		c.finalization, c.pauses, c.forcePause = r.Intn(3) == 0, r.Intn(4) == 0, r.Intn(4) == 0
		c.allPull = []int{0, 1, 2}[r.Intn(3)]
		// restarts (by the application, or by the monitor after a cut) while the responder sits at its limit
		c.restarts = r.Intn(2) == 0
		if r.Intn(3) == 0 {
			c.cuts, c.monitorA = 1, r.Intn(2) == 0
		}
		return c
	}
	// the per-event stream oracles of C03 (event classes) and C07 (totals never decrease; conservation through C01's
	// totals) also run on every real transfer
	finCfg := func(r *RunCtx) netCfg {
		c := base(r)
		c.finalization = true
		c.limits, c.pauses, c.vouchers = r.Intn(3) == 0, r.Intn(3) == 0, r.Intn(3) == 0
		return c
	}
	Register("C03", Stratum{Name: "net-mixed", Weight: 1, Fn: netTransfer(mixCfg)}, Stratum{Name: "net-finalization", Weight: 2, Fn: netTransfer(finCfg)})
	Register("C07", Stratum{Name: "net-pauses", Weight: 1, Fn: netTransfer(pausesCfg)}, Stratum{Name: "net-mixed", Weight: 1, Fn: netTransfer(mixCfg)})
	Register("C08", Stratum{Name: "net-limits-and-revalidation", Weight: 3, Fn: netTransfer(limitsCfg)})
	Register("C11", Stratum{Name: "net-pauses", Weight: 4, Fn: netTransfer(pausesCfg)}, Stratum{Name: "net-mixed", Weight: 1, Fn: netTransfer(mixCfg)})
	Register("C09", Stratum{Name: "net-closes", Weight: 4, Fn: netTransfer(closesCfg)}, Stratum{Name: "net-mixed", Weight: 2, Fn: netTransfer(mixCfg)})
	Register("C10", Stratum{Name: "net-restarts", Weight: 4, Fn: netTransfer(restartsCfg)}, Stratum{Name: "net-mixed", Weight: 1, Fn: netTransfer(mixCfg)})
	Register("C02", Stratum{Name: "net-mixed", Weight: 2, Fn: netTransfer(mixCfg)})
	Register("C19", Stratum{Name: "net-vouchers", Weight: 3, Fn: netTransfer(vouchersCfg)}, Stratum{Name: "net-mixed", Weight: 1, Fn: netTransfer(mixCfg)})
	validatorCfg := func(r *RunCtx) netCfg {
		c := base(r)
		c.rejects = true
		c.limits, c.finalization, c.forcePause, c.vouchers = r.Intn(2) == 0, r.Intn(2) == 0, r.Intn(3) == 0, r.Intn(2) == 0
		if r.Intn(2) == 0 {
			c.cuts = 1 + r.Intn(2)
			c.monitorA = r.Intn(2) == 0
		}
		c.restarts = r.Intn(2) == 0
		return c
	}
	Register("C04", Stratum{Name: "net-validator-outcomes", Weight: 5, Fn: netTransfer(validatorCfg)}, Stratum{Name: "net-mixed", Weight: 2, Fn: netTransfer(mixCfg)},
		Stratum{Name: "net-process-crash-and-restart", Weight: 1, Fn: netTransfer(crashCfg)})
	stopCfg := func(r *RunCtx) netCfg {
		c := mixCfg(r)
		c.nCh = 1 + r.Intn(3)
		c.stopMid = true
		return c
	}
	subsCfg := func(r *RunCtx) netCfg {
		c := mixCfg(r)
		c.nCh = 1 + r.Intn(3)
		c.subs = true
		c.allPull = []int{0, 0, 2}[r.Intn(3)] // pushes give the reverse pulls something to fetch
		return c
	}
	Register("C17", Stratum{Name: "net-subscribers", Weight: 4, Fn: netTransfer(subsCfg)})
	Register("C20", Stratum{Name: "net-mixed", Weight: 2, Fn: netTransfer(mixCfg)}, Stratum{Name: "net-stop-while-active", Weight: 3, Fn: netTransfer(stopCfg)})
	Register("C01",
		Stratum{Name: "net-fault-free", Weight: 2, Fn: netTransfer(base)},
		Stratum{Name: "net-pauses-limits-finalization", Weight: 4, Fn: netTransfer(func(r *RunCtx) netCfg {
			c := base(r)
			c.pauses, c.limits, c.finalization, c.forcePause, c.vouchers = r.Intn(2) == 0, r.Intn(3) != 0, r.Intn(2) == 0, r.Intn(3) == 0, r.Intn(2) == 0
			return c
		})},
		Stratum{Name: "net-cut-and-restart", Weight: 4, Fn: netTransfer(func(r *RunCtx) netCfg {
			c := base(r)
			c.cuts = 1 + r.Intn(2)
			c.notifyCut = r.Intn(2) == 0
			c.monitorA = r.Intn(3) != 0
			c.monitorB = r.Intn(4) == 0
			c.limits, c.finalization, c.pauses = r.Intn(3) == 0, r.Intn(3) == 0, r.Intn(4) == 0
			return c
		})},
	)
}
