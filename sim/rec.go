package sim

// Snapshots of channel states: every accessor is called on every state the harness sees (C19),
// and the snapshot is the unit of comparison for the history oracles.

import (
	"verif/simrt"
	"bytes"
	"encoding/hex"
	"fmt"
	"strings"

	"github.com/ipld/go-ipld-prime/codec/dagcbor"
	"github.com/ipld/go-ipld-prime/datamodel"
	"github.com/ipld/go-ipld-prime/schema"

	datatransfer "github.com/filecoin-project/go-data-transfer/v2"
)

type Snap struct {
	Valid     bool
	Status    datatransfer.Status
	Message   string
	Queued    uint64
	Sent      uint64
	Received  uint64
	QIdx      int64
	SIdx      int64
	RIdx      int64
	IPaused   bool
	RPaused   bool
	Both      bool
	SelfP     bool
	Limit     uint64
	ReqFin    bool
	Self      string
	Other     string
	Sender    string
	Recipient string
	ChID      datatransfer.ChannelID
	TID       datatransfer.TransferID
	IsPull    bool
	BaseCid   string
	Selector  string
	Vouchers  []string
	Results   []string
	Voucher0  string
	LastV     string
	LastR     string
	TotalSize uint64
	NStages   int
}

func encNode(n datamodel.Node) string {
	if n == nil {
		return "<nil>"
	}
	if tn, ok := n.(schema.TypedNode); ok {
		n = tn.Representation()
	}
	var buf bytes.Buffer
	if err := dagcbor.Encode(n, &buf); err != nil {
		return "<unencodable:" + err.Error() + ">"
	}
	return hex.EncodeToString(buf.Bytes())
}

func encTV(v datatransfer.TypedVoucher) string { return string(v.Type) + ":" + encNode(v.Voucher) }

// TakeSnap calls every accessor of st, recovering panics per accessor (each is a C19 violation).
func TakeSnap(r *RunCtx, where string, st datatransfer.ChannelState) Snap {
	var s Snap
	if st == nil {
		return s
	}
	s.Valid = true
	call := func(name string, f func()) {
		defer func() {
			if p := recover(); p != nil {
				val := panicValNorm.ReplaceAllString(fmt.Sprint(p), "#")
				r.Fail("C19", "accessor-panic", name+"|"+val, fmt.Sprintf("accessor %s panicked (%v) on a channel state obtained from %s (status %v)", name, p, where, safeStatus(st)))
			}
		}()
		simrt.Quiet(f) // observation must not consume preemption points
	}
	call("Status", func() { s.Status = st.Status() })
	call("Message", func() { s.Message = st.Message() })
	call("Queued", func() { s.Queued = st.Queued() })
	call("Sent", func() { s.Sent = st.Sent() })
	call("Received", func() { s.Received = st.Received() })
	call("QueuedCidsTotal", func() { s.QIdx = st.QueuedCidsTotal() })
	call("SentCidsTotal", func() { s.SIdx = st.SentCidsTotal() })
	call("ReceivedCidsTotal", func() { s.RIdx = st.ReceivedCidsTotal() })
	call("InitiatorPaused", func() { s.IPaused = st.InitiatorPaused() })
	call("ResponderPaused", func() { s.RPaused = st.ResponderPaused() })
	call("BothPaused", func() { s.Both = st.BothPaused() })
	call("SelfPaused", func() { s.SelfP = st.SelfPaused() })
	call("DataLimit", func() { s.Limit = st.DataLimit() })
	call("RequiresFinalization", func() { s.ReqFin = st.RequiresFinalization() })
	call("SelfPeer", func() { s.Self = string(st.SelfPeer()) })
	call("OtherPeer", func() { s.Other = string(st.OtherPeer()) })
	call("Sender", func() { s.Sender = string(st.Sender()) })
	call("Recipient", func() { s.Recipient = string(st.Recipient()) })
	call("ChannelID", func() { s.ChID = st.ChannelID() })
	call("TransferID", func() { s.TID = st.TransferID() })
	call("IsPull", func() { s.IsPull = st.IsPull() })
	call("BaseCID", func() { s.BaseCid = st.BaseCID().String() })
	call("Selector", func() { s.Selector = encNode(st.Selector()) })
	call("Vouchers", func() {
		for _, v := range st.Vouchers() {
			s.Vouchers = append(s.Vouchers, encTV(v))
		}
	})
	call("VoucherResults", func() {
		for _, v := range st.VoucherResults() {
			s.Results = append(s.Results, encTV(v))
		}
	})
	call("Voucher", func() { s.Voucher0 = encTV(st.Voucher()) })
	call("LastVoucher", func() { s.LastV = encTV(st.LastVoucher()) })
	call("LastVoucherResult", func() { s.LastR = encTV(st.LastVoucherResult()) })
	call("TotalSize", func() { s.TotalSize = st.TotalSize() })
	call("Stages", func() {
		if sg := st.Stages(); sg != nil {
			s.NStages = len(sg.Stages)
		}
	})
	// self-consistency of the derived views (C19)
	selfConsistent(r, where, &s)
	return s
}

func safeStatus(st datatransfer.ChannelState) (s datatransfer.Status) {
	defer func() { _ = recover() }()
	return st.Status()
}

func selfConsistent(r *RunCtx, where string, s *Snap) {
	bad := func(what, f string, a ...any) {
		r.Fail("C19", "view-inconsistent", what, fmt.Sprintf("%s (state from %s): ", what, where)+fmt.Sprintf(f, a...))
	}
	init, resp := string(s.ChID.Initiator), string(s.ChID.Responder)
	if s.IsPull != (init == s.Recipient) {
		bad("IsPull", "IsPull=%v but initiator=%q recipient=%q", s.IsPull, init, s.Recipient)
	}
	if s.ChID.ID != s.TID {
		bad("ChannelID.ID", "ChannelID().ID=%d TransferID()=%d", s.ChID.ID, s.TID)
	}
	if !((init == s.Sender && resp == s.Recipient) || (init == s.Recipient && resp == s.Sender)) {
		bad("ChannelID.peers", "channel id (%q,%q) is not {sender %q, recipient %q}", init, resp, s.Sender, s.Recipient)
	}
	if s.Self == s.Sender || s.Self == s.Recipient {
		if s.Other == s.Self {
			bad("OtherPeer", "OtherPeer()==SelfPeer()==%q", s.Self)
		}
		if s.Other != s.Sender && s.Other != s.Recipient {
			bad("OtherPeer", "OtherPeer()=%q is neither sender nor recipient", s.Other)
		}
	}
	if s.Both != (s.IPaused && s.RPaused) {
		bad("BothPaused", "BothPaused=%v but InitiatorPaused=%v ResponderPaused=%v", s.Both, s.IPaused, s.RPaused)
	}
	if s.Self == init && s.SelfP != s.IPaused {
		bad("SelfPaused", "self is initiator: SelfPaused=%v InitiatorPaused=%v", s.SelfP, s.IPaused)
	}
	if s.Self == resp && s.Self != init && s.SelfP != s.RPaused {
		bad("SelfPaused", "self is responder: SelfPaused=%v ResponderPaused=%v", s.SelfP, s.RPaused)
	}
	if s.Status == datatransfer.Finalizing && !s.RPaused {
		bad("ResponderPaused.Finalizing", "status Finalizing but ResponderPaused()=false")
	}
	if len(s.Vouchers) > 0 {
		if s.Voucher0 != s.Vouchers[0] {
			bad("Voucher", "Voucher()=%s but Vouchers()[0]=%s", s.Voucher0, s.Vouchers[0])
		}
		if s.LastV != s.Vouchers[len(s.Vouchers)-1] {
			bad("LastVoucher", "LastVoucher()=%s but last of Vouchers()=%s", s.LastV, s.Vouchers[len(s.Vouchers)-1])
		}
	}
	if len(s.Results) > 0 {
		if s.LastR != s.Results[len(s.Results)-1] {
			bad("LastVoucherResult", "LastVoucherResult()=%s but last of VoucherResults()=%s", s.LastR, s.Results[len(s.Results)-1])
		}
	} else if s.LastR != "" && s.LastR != ":<nil>" {
		bad("LastVoucherResult.empty", "no voucher results but LastVoucherResult()=%s", s.LastR)
	}
}

// Key is the canonical comparison string of all observable fields (stage log excluded: it is
// explicitly experimental and carries timestamps).
func (s Snap) Key() string {
	return fmt.Sprintf("%v|%d|%q|q%d s%d r%d|qi%d si%d ri%d|ip%v rp%v|lim%d fin%v|%s|%s|%s|%s|%v|%s|%s|V%s|R%s|ts%d",
		s.Valid, s.Status, s.Message, s.Queued, s.Sent, s.Received, s.QIdx, s.SIdx, s.RIdx, s.IPaused, s.RPaused, s.Limit, s.ReqFin,
		s.Self, s.Other, s.Sender, s.Recipient, s.ChID, s.BaseCid, s.Selector, strings.Join(s.Vouchers, ","), strings.Join(s.Results, ","), s.TotalSize)
}

// Diff lists the field groups in which two snapshots differ.
func (a Snap) Diff(b Snap) []string {
	var d []string
	if a.Status != b.Status {
		d = append(d, "status")
	}
	if a.Message != b.Message {
		d = append(d, "message")
	}
	if a.Queued != b.Queued || a.Sent != b.Sent || a.Received != b.Received {
		d = append(d, "counters")
	}
	if a.QIdx != b.QIdx || a.SIdx != b.SIdx || a.RIdx != b.RIdx {
		d = append(d, "indexes")
	}
	if a.IPaused != b.IPaused {
		d = append(d, "ipaused")
	}
	if a.RPaused != b.RPaused {
		d = append(d, "rpaused")
	}
	if a.Limit != b.Limit {
		d = append(d, "limit")
	}
	if a.ReqFin != b.ReqFin {
		d = append(d, "reqfin")
	}
	if strings.Join(a.Vouchers, ",") != strings.Join(b.Vouchers, ",") {
		d = append(d, "vouchers")
	}
	if strings.Join(a.Results, ",") != strings.Join(b.Results, ",") {
		d = append(d, "results")
	}
	if a.Self != b.Self || a.Other != b.Other || a.Sender != b.Sender || a.Recipient != b.Recipient || a.ChID != b.ChID || a.BaseCid != b.BaseCid || a.Selector != b.Selector || a.IsPull != b.IsPull || a.TotalSize != b.TotalSize {
		d = append(d, "immutable")
	}
	return d
}

func (s Snap) String() string {
	return fmt.Sprintf("{%s msg=%q q=%d s=%d r=%d qi=%d si=%d ri=%d ip=%v rp=%v lim=%d fin=%v nv=%d nr=%d}",
		datatransfer.Statuses[s.Status], s.Message, s.Queued, s.Sent, s.Received, s.QIdx, s.SIdx, s.RIdx, s.IPaused, s.RPaused, s.Limit, s.ReqFin, len(s.Vouchers), len(s.Results))
}

// isPrefix reports whether a is a prefix of b.
func isPrefix(a, b []string) bool {
	if len(a) > len(b) {
		return false
	}
	for i := range a {
		if a[i] != b[i] {
			return false
		}
	}
	return true
}

// ---------------------------------------------------------------- event classes (from the property text, C03)

var evBookkeeping = map[datatransfer.EventCode]bool{
	datatransfer.DataReceived: true, datatransfer.DataSent: true, datatransfer.DataQueued: true,
	datatransfer.DataReceivedProgress: true, datatransfer.DataSentProgress: true, datatransfer.DataQueuedProgress: true,
	datatransfer.DataLimitExceeded: true,
	datatransfer.PauseInitiator: true, datatransfer.ResumeInitiator: true, datatransfer.PauseResponder: true, datatransfer.ResumeResponder: true,
	datatransfer.NewVoucher: true, datatransfer.NewVoucherResult: true,
	datatransfer.SetDataLimit: true, datatransfer.SetRequiresFinalization: true,
	datatransfer.Disconnected: true, datatransfer.SendDataError: true, datatransfer.ReceiveDataError: true, datatransfer.RequestCancelled: true,
	datatransfer.SendMessageError: true, datatransfer.RequestTimedOut: true, datatransfer.TransferRequestQueued: true,
	datatransfer.Restart: true, datatransfer.Opened: true, datatransfer.CompleteCleanupOnRestart: true,
}

var evLifecycle = map[datatransfer.EventCode]bool{
	datatransfer.Open: true, datatransfer.Accept: true, datatransfer.TransferInitiated: true, datatransfer.Cancel: true, datatransfer.Error: true,
	datatransfer.FinishTransfer: true, datatransfer.ResponderCompletes: true, datatransfer.ResponderBeginsFinalization: true,
	datatransfer.BeginFinalizing: true, datatransfer.Complete: true, datatransfer.CleanupComplete: true,
}

func isTerminal(s datatransfer.Status) bool {
	return s == datatransfer.Completed || s == datatransfer.Failed || s == datatransfer.Cancelled
}
func isCleanup(s datatransfer.Status) bool {
	return s == datatransfer.Completing || s == datatransfer.Failing || s == datatransfer.Cancelling
}
func terminalOf(s datatransfer.Status) datatransfer.Status {
	switch s {
	case datatransfer.Completing:
		return datatransfer.Completed
	case datatransfer.Failing:
		return datatransfer.Failed
	case datatransfer.Cancelling:
		return datatransfer.Cancelled
	}
	return s
}
