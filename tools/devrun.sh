#!/bin/bash
# devrun.sh <prop> [seed] [budget_ms] : one worker, summarised
W=${W:-/tmp/w1}
cd $W && GOLOG_LOG_LEVEL=fatal VERIF_PROP=$1 VERIF_SEED=${2:-1} VERIF_BUDGET_MS=${3:-5000} VERIF_MAXRUNS=${MAXRUNS:-300} VERIF_MIN_MS=${MIN_MS:-10000} VERIF_KNOWN=/verif/known_findings.json VERIF_REPLAY_DIR=$W/replays ./sim.test -test.run '^TestWorker$' 2>&1 | python3 -c "
import sys,json
for l in sys.stdin:
    l=l.strip()
    if l.startswith('{'):
        d=json.loads(l)
        print(d['property'],'runs',d['runs'],'steps',d['steps'],'wall',d['wall_ms'],'distinct',d['distinct_schedules'],'nontriv',len(d['nontrivial_hashes'] or []))
        print(' strata',d['strata']); print(' probes',d['probes']); print(' faults',d['faults']); print(' known',d['known_hits'])
        print(' aborted_by:'); [print('    ',k,v) for k,v in sorted(d['aborted_by'].items())]
        print(' viol',d.get('violation'),d.get('replay')); print(' herr',d.get('harness_error'))
    elif l not in ('PASS',) : print(l[:400])
"
