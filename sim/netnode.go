package sim

// netsim nodes: a real data-transfer manager (impl) with the real network layer, the real graphsync
// transport adapter and the real channels stack, on SimHost / SimGraphsync / SimDisk, plus the
// recording seams (wire log, validator log, subscriber log).

import (
	"context"
	"errors"
	"fmt"
	"time"

	"github.com/ipfs/go-cid"
	"github.com/ipld/go-ipld-prime"
	"github.com/ipld/go-ipld-prime/datamodel"
	"github.com/libp2p/go-libp2p/core/peer"
	"github.com/libp2p/go-libp2p/core/protocol"

	datatransfer "github.com/filecoin-project/go-data-transfer/v2"
	"github.com/filecoin-project/go-data-transfer/v2/channelmonitor"
	dtimpl "github.com/filecoin-project/go-data-transfer/v2/impl"
	"github.com/filecoin-project/go-data-transfer/v2/network"
	gst "github.com/filecoin-project/go-data-transfer/v2/transport/graphsync"

	"verif/simrt"
)

// ---------------------------------------------------------------- message summaries

type MsgSum struct {
	Req        bool
	TID        datatransfer.TransferID
	New        bool
	Restart    bool
	Update     bool
	Cancel     bool
	Paused     bool
	Voucher    bool // IsVoucher (request) / IsVoucherResult (response)
	Complete   bool
	Accepted   bool
	ValRes     bool
	EmptyVR    bool
	Pull       bool
	RestartEx  bool
	VType      string
	VEnc       string
	Base       string
	Sel        string
	RestartChi string
}

func (m MsgSum) Kind() string {
	k := "resp"
	if m.Req {
		k = "req"
	}
	switch {
	case m.RestartEx:
		return k + ":restart-existing"
	case m.Cancel:
		return k + ":cancel"
	case m.New:
		return k + ":new"
	case m.Restart:
		return k + ":restart"
	case m.Complete:
		return k + ":complete"
	case m.Voucher:
		return k + ":voucher"
	case m.Update:
		return k + ":update"
	}
	return k + ":other"
}

func (m MsgSum) String() string {
	return fmt.Sprintf("%s tid=%d paused=%v accepted=%v pull=%v vt=%s", m.Kind(), m.TID, m.Paused, m.Accepted, m.Pull, m.VType)
}

// Summarise reads every observable field of a message through its public accessors.
func Summarise(msg datatransfer.Message) (out MsgSum) {
	simrt.Quiet(func() { out = summarise(msg) })
	return out
}

func summarise(msg datatransfer.Message) MsgSum {
	s := MsgSum{Req: msg.IsRequest(), TID: msg.TransferID(), New: msg.IsNew(), Restart: msg.IsRestart(), Update: msg.IsUpdate(), Cancel: msg.IsCancel(), Paused: msg.IsPaused()}
	if req, ok := msg.(datatransfer.Request); ok && msg.IsRequest() {
		s.Voucher = req.IsVoucher()
		s.Pull = req.IsPull()
		s.RestartEx = req.IsRestartExistingChannelRequest()
		s.VType = string(req.VoucherType())
		if v, err := req.Voucher(); err == nil {
			s.VEnc = encNode(v)
		} else {
			s.VEnc = "err"
		}
		s.Base = req.BaseCid().String()
		if sel, err := req.Selector(); err == nil {
			s.Sel = encNode(sel)
		} else {
			s.Sel = "err"
		}
		if s.RestartEx {
			if id, err := req.RestartChannelId(); err == nil {
				s.RestartChi = id.String()
			} else {
				s.RestartChi = "err"
			}
		}
	} else if resp, ok := msg.(datatransfer.Response); ok {
		s.Complete = resp.IsComplete()
		s.Voucher = resp.IsValidationResult() && !msg.IsNew() && !msg.IsRestart() && !resp.IsComplete()
		s.Accepted = resp.Accepted()
		s.ValRes = resp.IsValidationResult()
		s.EmptyVR = resp.EmptyVoucherResult()
		s.VType = string(resp.VoucherResultType())
		if !s.EmptyVR {
			if v, err := resp.VoucherResult(); err == nil {
				s.VEnc = encNode(v)
			} else {
				s.VEnc = "err"
			}
		}
	}
	return s
}

type WireRec struct {
	Step    int
	Dir     string // "send" (handed to SendMessage), "sent" (SendMessage returned nil), "recv" (delegate called)
	Peer    peer.ID
	Sum     MsgSum
	Err     string
	Life    int
	Carrier string // "libp2p" or "graphsync"
	Seq     int
}

// ---------------------------------------------------------------- recording network decorator

type recNet struct {
	inner network.DataTransferNetwork
	n     *Node
	life  int
}

func (rn *recNet) Protect(id peer.ID, tag string) {
	if rn.life == rn.n.life {
		rn.inner.Protect(id, tag)
	}
}
func (rn *recNet) Unprotect(id peer.ID, tag string) bool {
	if rn.life == rn.n.life {
		return rn.inner.Unprotect(id, tag)
	}
	return false
}
func (rn *recNet) ID() peer.ID                           { return rn.inner.ID() }
func (rn *recNet) ConnectTo(ctx context.Context, p peer.ID) error {
	if rn.life != rn.n.life {
		return errProcessDead
	}
	return rn.inner.ConnectTo(ctx, p)
}
func (rn *recNet) ConnectWithRetry(ctx context.Context, p peer.ID) error {
	if rn.life != rn.n.life {
		return errProcessDead
	}
	return rn.inner.ConnectWithRetry(ctx, p)
}
func (rn *recNet) Protocol(ctx context.Context, p peer.ID) (protocol.ID, error) {
	return rn.inner.Protocol(ctx, p)
}
var errProcessDead = errors.New("simnet: this process has crashed")

func (rn *recNet) SendMessage(ctx context.Context, p peer.ID, msg datatransfer.Message) error {
	if rn.life != rn.n.life {
		return errProcessDead // a crashed instance can no longer reach the network
	}
	sum := Summarise(msg)
	n := rn.n
	n.wireSeq++
	seq := n.wireSeq
	n.Wire = append(n.Wire, WireRec{Step: n.w.S.Steps, Dir: "send", Peer: p, Sum: sum, Life: rn.life, Carrier: "libp2p", Seq: seq})
	n.w.Logf("%s SendMessage -> %s: %s", n.Name, short(p), sum)
	err := rn.inner.SendMessage(ctx, p, msg)
	es := ""
	if err != nil {
		es = err.Error()
	}
	n.Wire = append(n.Wire, WireRec{Step: n.w.S.Steps, Dir: "sent", Peer: p, Sum: sum, Err: es, Life: rn.life, Carrier: "libp2p", Seq: seq})
	if err != nil {
		n.w.Logf("%s SendMessage -> %s FAILED: %v", n.Name, short(p), err)
	}
	return err
}
func (rn *recNet) SetDelegate(r network.Receiver) {
	rn.inner.SetDelegate(&recReceiver{inner: r, rn: rn})
}

type recReceiver struct {
	inner network.Receiver
	rn    *recNet
}

func (rr *recReceiver) rec(sender peer.ID, msg datatransfer.Message) {
	n := rr.rn.n
	simrt.SetLabel(n.Name)
	sum := Summarise(msg)
	n.Wire = append(n.Wire, WireRec{Step: n.w.S.Steps, Dir: "recv", Peer: sender, Sum: sum, Life: rr.rn.life, Carrier: "libp2p"})
	n.w.Logf("%s recv <- %s: %s", n.Name, short(sender), sum)
}
func (rr *recReceiver) dead() bool { return rr.rn.life != rr.rn.n.life }

func (rr *recReceiver) ReceiveRequest(ctx context.Context, sender peer.ID, incoming datatransfer.Request) {
	if rr.dead() {
		return
	}
	rr.rec(sender, incoming)
	rr.inner.ReceiveRequest(ctx, sender, incoming)
}
func (rr *recReceiver) ReceiveResponse(ctx context.Context, sender peer.ID, incoming datatransfer.Response) {
	if rr.dead() {
		return
	}
	rr.rec(sender, incoming)
	rr.inner.ReceiveResponse(ctx, sender, incoming)
}
func (rr *recReceiver) ReceiveRestartExistingChannelRequest(ctx context.Context, sender peer.ID, incoming datatransfer.Request) {
	if rr.dead() {
		return
	}
	rr.rec(sender, incoming)
	rr.inner.ReceiveRestartExistingChannelRequest(ctx, sender, incoming)
}
func (rr *recReceiver) ReceiveError(err error) {
	rr.rn.n.RecvErrors++
	rr.inner.ReceiveError(err)
}

// ---------------------------------------------------------------- recording transport decorator

type TpCall struct {
	Step, Done int
	Kind       string // open, close, cleanup, pause, resume, shutdown
	ChID       datatransfer.ChannelID
	Err        error
	Life       int
	Restart    bool
}

// recTransport forwards every call to the real graphsync transport and logs it. (Per-channel stores are
// configured by harness-made TransportOptions that call the real transport directly, because the library's
// gst.UseStore option type-asserts the transport it is handed.)
type recTransport struct {
	inner *gst.Transport
	n     *Node
	life  int
}

func (t *recTransport) log(kind string, chid datatransfer.ChannelID) int {
	t.n.TpCalls = append(t.n.TpCalls, TpCall{Step: t.n.w.S.Steps, Kind: kind, ChID: chid, Life: t.life})
	return len(t.n.TpCalls) - 1
}
func (t *recTransport) done(i int, err error) error {
	t.n.TpCalls[i].Done = t.n.w.S.Steps
	t.n.TpCalls[i].Err = err
	return err
}
func (t *recTransport) OpenChannel(ctx context.Context, dataSender peer.ID, channelID datatransfer.ChannelID, root ipld.Link, stor datamodel.Node, channel datatransfer.ChannelState, msg datatransfer.Message) error {
	i := t.log("open", channelID)
	t.n.TpCalls[i].Restart = channel != nil
	return t.done(i, t.inner.OpenChannel(ctx, dataSender, channelID, root, stor, channel, msg))
}
func (t *recTransport) CloseChannel(ctx context.Context, chid datatransfer.ChannelID) error {
	i := t.log("close", chid)
	return t.done(i, t.inner.CloseChannel(ctx, chid))
}
func (t *recTransport) SetEventHandler(events datatransfer.EventsHandler) error {
	return t.inner.SetEventHandler(events)
}
func (t *recTransport) CleanupChannel(chid datatransfer.ChannelID) {
	i := t.log("cleanup", chid)
	t.inner.CleanupChannel(chid)
	_ = t.done(i, nil)
}
func (t *recTransport) Shutdown(ctx context.Context) error {
	i := t.log("shutdown", datatransfer.ChannelID{})
	return t.done(i, t.inner.Shutdown(ctx))
}
func (t *recTransport) PauseChannel(ctx context.Context, chid datatransfer.ChannelID) error {
	i := t.log("pause", chid)
	return t.done(i, t.inner.PauseChannel(ctx, chid))
}
func (t *recTransport) ResumeChannel(ctx context.Context, msg datatransfer.Message, chid datatransfer.ChannelID) error {
	i := t.log("resume", chid)
	return t.done(i, t.inner.ResumeChannel(ctx, msg, chid))
}

// UseStoreOption is the harness' equivalent of gst.UseStore for a manager built on the recording decorator.
func (n *Node) UseStoreOption(lsys ipld.LinkSystem) datatransfer.TransportOption {
	return func(chid datatransfer.ChannelID, _ datatransfer.Transport) error {
		tp := n.Tp
		if err := tp.UseStore(chid, lsys); err != nil {
			n.w.Logf("%s UseStore(%d): %v", n.Name, chid.ID, err)
		}
		return nil
	}
}

// ---------------------------------------------------------------- validator (SimApp)

type ValCall struct {
	Step   int
	Kind   string // "push", "pull", "restart"
	ChID   datatransfer.ChannelID
	Type   string
	Result datatransfer.ValidationResult
	Err    error
	Life   int
	// the channel state the validator was handed (restart validations)
	Pre   Snap
	PreOK bool
}

type Validator struct {
	n    *Node
	typ  datatransfer.TypeIdentifier
	New  func(kind string, chid datatransfer.ChannelID) (datatransfer.ValidationResult, error)
	Rest func(chid datatransfer.ChannelID, st datatransfer.ChannelState) (datatransfer.ValidationResult, error)
}

func (v *Validator) record(kind string, chid datatransfer.ChannelID, res datatransfer.ValidationResult, err error) {
	n := v.n
	n.ValCalls = append(n.ValCalls, ValCall{Step: n.w.S.Steps, Kind: kind, ChID: chid, Type: string(v.typ), Result: res, Err: err, Life: n.life})
	n.w.Logf("%s validator[%s] %s %d -> accepted=%v pause=%v limit=%d fin=%v err=%v", n.Name, v.typ, kind, chid.ID, res.Accepted, res.ForcePause, res.DataLimit, res.RequiresFinalization, err)
}

func (v *Validator) ValidatePush(chid datatransfer.ChannelID, sender peer.ID, voucher datamodel.Node, baseCid cid.Cid, selector datamodel.Node) (datatransfer.ValidationResult, error) {
	v.n.ValBase = baseCid
	res, err := v.New("push", chid)
	v.record("push", chid, res, err)
	return res, err
}
func (v *Validator) ValidatePull(chid datatransfer.ChannelID, receiver peer.ID, voucher datamodel.Node, baseCid cid.Cid, selector datamodel.Node) (datatransfer.ValidationResult, error) {
	v.n.ValBase = baseCid
	res, err := v.New("pull", chid)
	v.record("pull", chid, res, err)
	return res, err
}
func (v *Validator) ValidateRestart(chid datatransfer.ChannelID, st datatransfer.ChannelState) (datatransfer.ValidationResult, error) {
	pre := TakeSnap(v.n.r, "ValidateRestart", st)
	res, err := v.Rest(chid, st)
	v.record("restart", chid, res, err)
	v.n.ValCalls[len(v.n.ValCalls)-1].Pre, v.n.ValCalls[len(v.n.ValCalls)-1].PreOK = pre, true
	return res, err
}

// ---------------------------------------------------------------- node

type NodeEv struct {
	Step int
	Code datatransfer.EventCode
	Snap Snap
	Life int
	Time time.Duration
}

type NodeCfg struct {
	Monitor *channelmonitor.Config
	// Types to register with validators at (re)start
	Types []datatransfer.TypeIdentifier
	// retry parameters of the network layer
	Attempts float64
	// AllowReadyErr: a manager whose readiness reports an error (failed migration) still counts as started
	AllowReadyErr bool
}

type Node struct {
	Name  string
	ID    peer.ID
	w     *World
	r     *RunCtx
	Cfg   NodeCfg
	Disk  *Disk
	Store *Store
	Host  *Host
	GS    *GS
	Net   *recNet
	Tp    *gst.Transport
	Mgr   datatransfer.Manager

	Vals     map[datatransfer.TypeIdentifier]*Validator
	ValNew   func(kind string, chid datatransfer.ChannelID) (datatransfer.ValidationResult, error)
	ValBase  cid.Cid // base CID of the request being validated (set right before ValNew is called)
	ValRest  func(chid datatransfer.ChannelID, st datatransfer.ChannelState) (datatransfer.ValidationResult, error)
	ValCalls []ValCall

	Events     []NodeEv
	OnEvent    func(ev NodeEv) // app reaction hook (runs inside the subscriber callback)
	Wire       []WireRec
	wireSeq    int
	RecvErrors int
	life       int
	t0         time.Time
	Up         bool
	ChStores   map[datatransfer.ChannelID]*Store
	TpCalls      []TpCall
	gsHist       []*GS
	ReadyErr     error // what the manager's readiness reported (only with Cfg.AllowReadyErr)
	ReadyNever   bool  // readiness was not announced within ten simulated minutes (only with Cfg.AllowReadyErr)
	AllGSCalls   []GSCall
	CrashedLives map[int]bool // lives that began after a crash (not a clean stop)
	LifeStart    map[int]int  // scheduling step at which each life began
	// PreStart runs after the manager was built and before Start; PostStart right after Start returned (the migration is still running)
	PreStart  func(m datatransfer.Manager)
	PostStart func(m datatransfer.Manager)
}

// collectGS flattens the graphsync API call logs of all lives.
func (n *Node) collectGS() {
	n.AllGSCalls = nil
	for life, g := range n.gsHist {
		for _, c := range g.Calls {
			c.Life = life
			n.AllGSCalls = append(n.AllGSCalls, c)
		}
	}
}

func (w *World) NewNode(r *RunCtx, name string, cfg NodeCfg) *Node {
	n := &Node{Name: name, ID: peer.ID("peer-" + name), w: w, r: r, Cfg: cfg, Disk: NewDisk(), Store: NewStore(), Vals: map[datatransfer.TypeIdentifier]*Validator{}, ChStores: map[datatransfer.ChannelID]*Store{}, t0: time.Now()}
	n.Host = w.Net.NewHost(n.ID)
	n.Host.Label = name
	if w.Nodes == nil {
		w.Nodes = map[peer.ID]*Node{}
	}
	w.Nodes[n.ID] = n
	return n
}

// Start builds a fresh manager (new life) on the node's current disk.
func (n *Node) Start() bool {
	simrt.SetLabel(n.Name)
	delete(StoppedLabels, n.Name) // a new manager: its state machines run
	if n.LifeStart == nil {
		n.LifeStart = map[int]int{}
	}
	n.LifeStart[n.life] = n.w.S.Steps
	n.GS = n.w.GS.NewGS(n.ID, n.Store.LinkSystem())
	n.GS.Label = n.Name
	n.gsHist = append(n.gsHist, n.GS)
	att := n.Cfg.Attempts
	if att == 0 {
		att = 3
	}
	dtnet := network.NewFromLibp2pHost(n.Host, network.RetryParameters(time.Second, 10*time.Second, att, 2))
	n.Net = &recNet{inner: dtnet, n: n, life: n.life}
	n.Tp = gst.NewTransport(n.ID, n.GS)
	var opts []dtimpl.DataTransferOption
	if n.Cfg.Monitor != nil {
		opts = append(opts, dtimpl.ChannelRestartConfig(*n.Cfg.Monitor))
	}
	m, err := dtimpl.NewDataTransfer(n.Disk, n.Net, &recTransport{inner: n.Tp, n: n, life: n.life}, opts...)
	if err != nil {
		n.r.HarnessErr = "NewDataTransfer: " + err.Error()
		return false
	}
	ready := make(chan error, 1)
	m.OnReady(func(e error) { ready <- e })
	if n.PreStart != nil {
		n.PreStart(m)
	}
	if err := m.Start(context.Background()); err != nil {
		n.r.HarnessErr = "manager Start: " + err.Error()
		return false
	}
	if n.PostStart != nil {
		n.PostStart(m)
	}
	if n.Cfg.AllowReadyErr {
		// a start-up that may fail: readiness must still be announced - wait for it, but not for ever
		for i := 0; i < 600 && len(ready) == 0; i++ {
			simrt.Sleep(time.Second)
		}
		if len(ready) == 0 {
			n.ReadyNever = true
			n.Mgr = m
			n.Up = true
			return true
		}
	}
	if e := simrt.Recv(ready); e != nil {
		if !n.Cfg.AllowReadyErr {
			n.r.HarnessErr = "manager ready: " + e.Error()
			return false
		}
		n.ReadyErr = e
	}
	n.Mgr = m
	n.Up = true
	for _, t := range n.Cfg.Types {
		n.RegisterType(t)
	}
	life := n.life
	m.SubscribeToEvents(func(ev datatransfer.Event, st datatransfer.ChannelState) {
		if life != n.life {
			return
		}
		snap := TakeSnap(n.r, "subscriber", st)
		ne := NodeEv{Step: n.w.S.Steps, Code: ev.Code, Snap: snap, Life: life, Time: time.Since(n.t0)}
		n.Events = append(n.Events, ne)
		if LogAll {
			n.w.Logf("%s EVENT %d %s -> %s", n.Name, snap.TID%100000, datatransfer.Events[ev.Code], snap)
		}
		if n.OnEvent != nil {
			n.OnEvent(ne)
		}
	})
	return true
}

func (n *Node) RegisterType(t datatransfer.TypeIdentifier) {
	v := &Validator{n: n, typ: t,
		New:  func(kind string, chid datatransfer.ChannelID) (datatransfer.ValidationResult, error) { return n.ValNew(kind, chid) },
		Rest: func(chid datatransfer.ChannelID, st datatransfer.ChannelState) (datatransfer.ValidationResult, error) { return n.ValRest(chid, st) }}
	if err := n.Mgr.RegisterVoucherType(t, v); err == nil {
		n.Vals[t] = v
	}
}

// Crash abandons the running instance (no Stop), keeps the datastore prefix up to write `at`,
// and starts a new instance. Everything the old instance still does is invisible.
func (n *Node) Crash(at int) bool {
	n.w.Logf("CRASH %s at disk write %d of %d", n.Name, at, len(n.Disk.Log))
	n.Up = false
	n.life++
	if n.CrashedLives == nil {
		n.CrashedLives = map[int]bool{}
	}
	n.CrashedLives[n.life] = true
	if at > len(n.Disk.Log) {
		at = len(n.Disk.Log)
	}
	old := n.Disk
	n.Disk = old.Reopen(at)
	old.Dead = true
	n.w.GS.Kill(n.ID)
	n.Host.Kill()
	n.Vals = map[datatransfer.TypeIdentifier]*Validator{}
	return true
}

// StopTracked calls Manager.Stop as a tracked call (it must return: C20) and waits for it - without letting simulated
// time pass when tight is set - for at most two simulated minutes. It reports whether Stop returned.
func (n *Node) StopTracked(tight bool) bool {
	m := n.Mgr
	StoppedLabels[n.Name] = true
	c := n.r.OpE(n.Name, "Manager.Stop", func() error { return m.Stop(context.Background()) })
	if tight {
		for i := 0; i < 20000 && !c.Returned; i++ {
			simrt.Yield("stop.wait")
		}
	}
	for i := 0; i < 120 && !c.Returned; i++ {
		simrt.Sleep(time.Second)
	}
	if LogAll {
		n.w.Logf("APP %s Manager.Stop returned=%v", n.Name, c.Returned)
	}
	return c.Returned
}

// StopClean stops the manager in an orderly way (the process then exits: its endpoints disappear).
func (n *Node) StopClean() bool { return n.stopClean(false) }

func (n *Node) stopClean(tight bool) bool {
	ok := n.StopTracked(tight)
	if ok && !tight {
		// "leaves no goroutine blocked on library locks": give everything a moment, then look for tasks of this node that
		// still wait for a mutex
		simrt.Sleep(time.Minute)
		var stuck []*simrt.Task
		for _, t := range n.w.S.BlockedTasks() {
			if t.Label == n.Name && t.WaitsOn != nil {
				stuck = append(stuck, t)
			}
		}
		if len(stuck) > 0 {
			stks := n.w.S.StacksOf(stuck)
			for _, t := range stuck {
				why, rootStk := stuckRoot(n.w.S, t, stks[t.ID])
				sig := why // the root of the wait-for chain names the defect; the victim's own frame only when there is no root
				if sig == "" {
					sig = "at:" + rootFrame(stks[t.ID])
				}
				n.r.Fail("C20", "blocked-on-lock-after-stop", sig, fmt.Sprintf("Manager.Stop of node %s returned, yet task %s still waits for a library lock one simulated minute later\n%s%s", n.Name, t.ID, shortStack(stks[t.ID]), rootStk))
			}
		}
	}
	n.Up = false
	n.life++
	n.w.GS.Kill(n.ID)
	n.Host.Kill()
	n.Disk = n.Disk.Reopen(len(n.Disk.Log))
	n.Vals = map[datatransfer.TypeIdentifier]*Validator{}
	return ok
}

// EventsOf returns this node's announced events for a channel (all lives).
func (n *Node) EventsOf(chid datatransfer.ChannelID) []NodeEv {
	var out []NodeEv
	for _, e := range n.Events {
		if e.Snap.ChID == chid {
			out = append(out, e)
		}
	}
	return out
}

// State queries the channel state (nil if unknown).
func (n *Node) State(chid datatransfer.ChannelID) (Snap, bool) {
	st, err := n.Mgr.ChannelState(context.Background(), chid)
	if err != nil || st == nil {
		return Snap{}, false
	}
	return TakeSnap(n.r, "ChannelState", st), true
}
