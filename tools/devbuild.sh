#!/bin/bash
# dev loop: re-sync harness sources into an existing work dir and rebuild the test binary
W=${1:-/tmp/w1}
export GOFLAGS=-mod=mod GOPROXY=off GOSUMDB=off GOTOOLCHAIN=local PATH=/opt/veriftools/go1.26.8/bin:$PATH
rsync -a --exclude go.mod --exclude go.sum --exclude go.mod.tmpl /verif/sim/ $W/sim/ && rsync -a /verif/simrt/ $W/simrt/ && cd $W/sim && go vet . 2>&1 | head -30; go test -c -trimpath -o $W/sim.test . 2>&1 | head -40
