module verif/simrt

go 1.26
