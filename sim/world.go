package sim

import (
	"fmt"

	"github.com/libp2p/go-libp2p/core/peer"

	"verif/simrt"
)

// LogAll turns on the readable event log (replay / trace mode; off during search for speed).
var LogAll = false

// World is one simulated run: the tape, the log, the network and the nodes.
type World struct {
	S   *simrt.Sim
	R   *RunCtx
	Log []string
	Net *Net
	GS  *GSNet
	Nodes map[peer.ID]*Node
}

func NewWorld(s *simrt.Sim) *World {
	w := &World{S: s}
	w.Net = NewNet(w)
	w.GS = NewGSNet(w)
	return w
}

func (w *World) Logf(f string, a ...any) {
	if LogAll {
		w.Log = append(w.Log, fmt.Sprintf("[%d] ", w.S.Steps)+fmt.Sprintf(f, a...))
	}
}
func (w *World) Intn(n int) int { return w.S.Intn(n) }

func short(p peer.ID) string {
	s := string(p)
	if len(s) > 6 {
		return s[:6]
	}
	return s
}
